"""C01 - a file pint passes in strict mode is loadable by Prometheus (spec: StrictSchema / StrictSchemaTrace).

MC    TLC checks  PintClean(doc) => PromAccepts(doc)  over every abstract document with <= MaxDev deviating fields
      (documents of the gaps declared open in known_findings.json are excepted; they must then show up below).
GEN   the same TLC run prints every visited document (replayed subset chosen by a second, smaller run).
EXEC  vh exec-c01: each document rendered to YAML, given to pint's real strict pipeline and to the real rulefmt.Parse.
JUDGE StrictSchemaTrace: verdict on the recorded outputs, binding of PintStages and of PromAccepts.
Off-model: vh exec-c01-mut, seeded mutations of rendered documents and of the repository's YAML fixtures; only the
      implication is judged there (level: exploration for that part).
"""
import base64
import json
import random
import re

import vlib
from vlib import prints, write_ndjson, read_ndjson, MachineryError
from props import schema_corpus

GAP_IDS = ("F9a", "F9b", "F9c", "F9d", "F9e", "F9g")   # F9f (inline merge) has no pre-repair shape in the spec

CFG = """SPECIFICATION Spec
CONSTANTS
  MaxDev = %d
  NamesSet = %s
  SchemaSet = %s
  CoreOnly = %s
  Gaps = %s
INVARIANTS %s
CHECK_DEADLOCK FALSE
"""

TRACE_CFG = """SPECIFICATION TraceSpec
CONSTANTS
  MaxDev = 0
  NamesSet = {"utf8", "legacy"}
  SchemaSet = {"prometheus", "thanos"}
  CoreOnly = FALSE
  Gaps = %s
CHECK_DEADLOCK FALSE
"""


def tla_set(xs):
    return "{" + ", ".join('"%s"' % x for x in sorted(xs)) + "}"


def open_gaps():
    """Gaps of rulefmt validations the tree is declared to lack: open C01 entries F9a-d of known_findings.json."""
    return [f["id"] for f in vlib.load_findings().get("findings", [])
            if f.get("property") == "C01" and f.get("status") == "open" and f.get("id") in GAP_IDS]


def base_r(kind):
    if kind == "alerting":
        return {"record": "absent", "alert": "ok", "expr": "ok", "merge": "absent", "for": "ok", "keep_firing_for": "ok", "labels": "ok",
                "annotations": "ok", "unknown": "absent"}
    return {"record": "ok", "alert": "absent", "expr": "ok", "merge": "absent", "for": "absent", "keep_firing_for": "absent", "labels": "ok",
            "annotations": "absent", "unknown": "absent"}


BASE_G = {"name": "ok", "interval": "ok", "query_offset": "ok", "limit": "ok", "labels": "ok", "rules": "ok",
          "partial_response_strategy": "absent", "unknown": "absent"}


def devs_of(c):
    """Number of deviating fields of a generated case (only used to stratify the replay sample; signatures come from TLC)."""
    out = [k for k in ("top",) if c[k] != "ok"] + [k for k in ("gitem", "ritem") if c[k] != "map"]
    out += [k for k in ("g2", "r2") if c.get(k, "absent") != "absent"]
    out += ["g." + f for f, v in c["g"].items() if v != BASE_G[f]]
    out += ["r." + f for f, v in c["r"].items() if v != base_r(c["kind"])[f]]
    return out


_FEATURES = (("merge", re.compile(r"<<\s*:")), ("alias", re.compile(r"(^|[\s\[{,:-])[&*][A-Za-z0-9_]")),
             ("nullword", re.compile(r":\s*(~|null|Null|NULL)\s*(#.*)?$", re.M)), ("tag", re.compile(r"(^|\s)!!?[A-Za-z]")),
             ("multidoc", re.compile(r"^(---|\.\.\.)", re.M)))


def features(text):
    return [n for n, rx in _FEATURES if rx.search(text)]


def sig_of(v):
    return "C01:%s:%s:%s" % (v["kind"], v["names"], ",".join(sorted(v["devs"])))   # violations exist for the prometheus schema only


def norm_prom_err(e):
    """Prometheus' first error message with positions, rule/group names and offending values blanked."""
    e = re.sub(r"^\d+:\d+: (\d+:\d+: )?", "", e or "")
    e = re.sub(r'group "[^"]*", rule \d+, "[^"]*": ', "", e)
    e = re.sub(r"line \d+", "line N", e)
    e = re.sub(r"\d+:\d+", "N:N", e)
    if "mapping key" not in e:
        e = re.sub(r'"[^"]*"', '"_"', e)
    if re.match(r"^(invalid (label|annotation) (name|value)|invalid recording rule name|braces present)", e):
        e = re.sub(r"(: )[^:]*$", r"\1_", e)
    return re.sub(r"\s+", " ", e)[:140]


JUDGE_CHUNK = 40000


def judge(ctx, trace, gaps, tag):
    """Run StrictSchemaTrace over the records (in chunks); returns (viol, violmut, drift, promdrift)."""
    viol, violmut, drift, promdrift = [], [], [], []
    for off in range(0, len(trace), JUDGE_CHUNK):
        chunk = trace[off:off + JUDGE_CHUNK]
        tpath = write_ndjson(ctx.path("c01_trace_%s_%d.ndjson" % (tag, off)), chunk)
        j = ctx.tlc("StrictSchemaTrace", "c01_trace.cfg", workers=1, timeout=3000, heap="8g", tag="judge-%s-%d" % (tag, off),
                    files={"c01_trace.ndjson": tpath, "c01_trace.cfg": TRACE_CFG % tla_set(gaps)})
        done = prints(j, "DONE")
        if not done or done[0][0] != len(chunk):
            raise MachineryError("JUDGE consumed %s of %d trace records (%s)" % (done[0][0] if done else "?", len(chunk), tag))
        viol += prints(j, "VIOL")
        violmut += prints(j, "VIOLMUT")
        drift += prints(j, "DRIFT")
        promdrift += prints(j, "PROMDRIFT")
    return viol, violmut, drift, promdrift


def run(ctx, replay_case=None):
    thorough = ctx.thorough
    gaps = open_gaps()
    names_all = ["utf8", "legacy"]
    viols, drift_lines = [], []
    cov = {}
    # ------------------------------------------------------------------ replay of one stored case
    if replay_case is not None:
        if "doc" in replay_case:
            cases = [replay_case["doc"]]
            cpath = write_ndjson(ctx.path("c01_cases.ndjson"), cases)
            tpath = ctx.path("c01_exec.ndjson")
            ctx.vh("exec-c01", cpath, tpath)
        else:
            cpath = write_ndjson(ctx.path("c01_cases.ndjson"), [{"name": "replay", "yaml_b64": replay_case["yaml_b64"]}])
            tpath = ctx.path("c01_exec.ndjson")
            ctx.vh("exec-c01-raw", cpath, tpath)
        trace = read_ndjson(tpath)
        v, vm, dr, pd = judge(ctx, trace, gaps, "replay")
        if pd:
            raise MachineryError("rulefmt transcription disagrees with the real loader: %s" % json.dumps(pd[0][1])[:400])
        for cid, d in v:
            viols.append({"sig": sig_of(d), "what": "pint strict mode passes, Prometheus refuses: %s" % d["prom_err"][:1], "doc": cases[0]})
        for cid, d in vm:
            viols.append({"sig": "C01:mut:replay", "what": "pint strict mode passes a file Prometheus refuses", "yaml_b64": replay_case["yaml_b64"]})
        return vlib.conclude(ctx, viols, "exploration", {"samples": trace[:1], "evaluations": len(trace), "distinct_nontrivial": len(trace),
                                                        "rule": "replay of one stored case"}, ["replay"], drift=[json.dumps(d)[:300] for _, d in dr])

    # ------------------------------------------------------------------ MC (+ GEN of the replayed subset)
    # quick:    MC all documents with <= 2 deviating fields (utf-8 names) and <= 1 (legacy names);
    #           replay every document with <= 1 deviation and a seeded sample of 12000 pairs
    # thorough: MC <= 3 deviations (3rd in a core field, utf-8 names) and all pairs under both name schemes; replay all pairs
    PROM, BOTH = tla_set(["prometheus"]), tla_set(["prometheus", "thanos"])
    if thorough:
        mc = ctx.tlc("StrictSchema", "c01_mc.cfg", timeout=3300, allow_violation=True, heap="3g", workers=12, tag="mc-dev3-core",
                     files={"c01_mc.cfg": CFG % (3, tla_set(["utf8"]), PROM, "TRUE", tla_set(gaps), "Inv_C01_ModuloKnown Inv_Count")})
        mc2 = ctx.tlc("StrictSchema", "c01_mc2.cfg", timeout=3300, allow_violation=True, heap="3g", workers=12, tag="mc-dev2+gen",
                      files={"c01_mc2.cfg": CFG % (2, tla_set(names_all), PROM, "FALSE", tla_set(gaps), "Inv_C01_ModuloKnown Inv_Count EmitCase")})
        mc3 = ctx.tlc("StrictSchema", "c01_mc3.cfg", timeout=3300, allow_violation=True, heap="3g", workers=12, tag="mc-dev2-thanos-core+gen",
                      files={"c01_mc3.cfg": CFG % (2, tla_set(["utf8"]), tla_set(["thanos"]), "TRUE", tla_set(gaps), "Inv_C01_ModuloKnown Inv_Count EmitCase")})
        mcs, gens = [mc, mc2, mc3], [mc2, mc3]
    else:
        mc = ctx.tlc("StrictSchema", "c01_mc.cfg", timeout=900, allow_violation=True, heap="3g", tag="mc-dev2-utf8+gen",
                     files={"c01_mc.cfg": CFG % (2, tla_set(["utf8"]), PROM, "FALSE", tla_set(gaps), "Inv_C01_ModuloKnown Inv_Count EmitCase")})
        mc2 = ctx.tlc("StrictSchema", "c01_mc2.cfg", timeout=900, allow_violation=True, heap="3g", tag="mc-dev1-all-schemes+gen",
                      files={"c01_mc2.cfg": CFG % (1, tla_set(names_all), BOTH, "FALSE", tla_set(gaps), "Inv_C01_ModuloKnown Inv_Count EmitCase")})
        mcs, gens = [mc, mc2], [mc, mc2]
    leads = [m["invariant_violated"] for m in mcs if m["invariant_violated"]]
    cases, seen_case = [], set()
    for g in gens:
        got = [v[0] for v in prints(g, "CASE")]
        if len(got) != g["distinct"]:
            raise MachineryError("GEN emitted %d cases for %d states" % (len(got), g["distinct"]))
        for x in got:
            k = json.dumps(x, sort_keys=True)
            if k not in seen_case:
                seen_case.add(k)
                cases.append(x)
    cases.sort(key=lambda c: json.dumps(c, sort_keys=True))
    visited = len(cases)
    if not thorough:
        # replay every document with <= 1 deviation and a seeded sample of the pairs
        rnd = random.Random(ctx.seed)
        ndev = lambda c: len(devs_of(c))
        small = [c for c in cases if ndev(c) <= 1]
        pairs = [c for c in cases if ndev(c) > 1]
        cases = small + rnd.sample(pairs, min(len(pairs), 12000))
    # ------------------------------------------------------------------ EXEC + JUDGE, structured space
    cpath = write_ndjson(ctx.path("c01_cases.ndjson"), cases)
    tpath = ctx.path("c01_exec.ndjson")
    ctx.vh("exec-c01", cpath, tpath)
    trace = read_ndjson(tpath)
    if len(trace) != len(cases):
        raise MachineryError("EXEC returned %d records for %d cases" % (len(trace), len(cases)))
    v, _, dr, pd = judge(ctx, trace, gaps, "doc")
    if pd:
        raise MachineryError("my transcription of rulefmt (PromAccepts) disagrees with the real loader on %d documents, e.g. %s"
                             % (len(pd), json.dumps(pd[0][1])[:600]))
    for cid, d in v:
        viols.append({"sig": sig_of(d), "what": "pint strict mode passes %s rule file with %s; Prometheus refuses it: %s" % (
            d["kind"], ",".join(sorted(d["devs"])), (d["prom_err"] or ["?"])[0][:160]), "doc": cases[cid - 1], "yaml": d["yaml"]})
    drift_lines += ["doc %s: expected stages %s, observed %s" % (",".join(sorted(d["devs"])) or "baseline", sorted(d["expected"]), d["observed"]) for _, d in dr]
    if leads and not viols:
        raise MachineryError("model-level counterexample (%s) not reproduced on the real code: spec bug" % leads)
    antecedent = sum(1 for r in trace if r["obs"]["clean"])
    refused = sum(1 for r in trace if not r["obs"]["prom_ok"])
    # ------------------------------------------------------------------ off-model exploration: mutations
    fixtures = schema_corpus.collect(ctx.repo)
    bases = [{"name": "doc:%d" % r["id"], "yaml": r["yaml"]} for r in trace if len(r["doc"]) and r["id"] % (7 if thorough else 23) == 0]
    nfix = 0
    for name, b in fixtures:
        try:
            bases.append({"name": name, "yaml": b.decode("utf-8")})
            nfix += 1
        except UnicodeDecodeError:
            pass
    nmut = 600000 if thorough else 30000
    bpath = write_ndjson(ctx.path("c01_bases.ndjson"), bases)
    mpath, spath = ctx.path("c01_mut.ndjson"), ctx.path("c01_mut_side.ndjson")
    ctx.vh("exec-c01-mut", bpath, mpath, nmut, spath, timeout=3000)
    mtrace = read_ndjson(mpath)
    if len(mtrace) != nmut:
        raise MachineryError("mutation EXEC returned %d records for %d inputs" % (len(mtrace), nmut))
    _, vm, _, _ = judge(ctx, mtrace, gaps, "mut")
    side = {r["id"]: r for r in read_ndjson(spath)}
    for cid, d in vm:
        s = side.get(cid)
        if s is None:
            raise MachineryError("mutated input %d violates but its bytes were not recorded" % cid)
        text = base64.b64decode(s["yaml_b64"]).decode("utf-8", "replace")
        viols.append({"sig": "C01:mut:%s:%s" % (norm_prom_err(s["prom_err"]), "+".join(features(text))),
                      "what": "pint strict mode passes a mutated file (%s of %s) that Prometheus refuses: %s" % (d["ops"], d["base"], s["prom_err"][:160]),
                      "yaml_b64": s["yaml_b64"], "yaml": base64.b64decode(s["yaml_b64"]).decode("utf-8", "replace")})
    mut_clean = sum(1 for r in mtrace if r["clean"] and not r["skipped"])
    mut_skipped = sum(1 for r in mtrace if r["skipped"])
    ops_seen = sorted({o for r in mtrace for o in r["ops"].split("+")})
    # ------------------------------------------------------------------ evidence
    sample_ids = [len(trace) // 5, len(trace) // 2]
    cov = {
        "states": sum(m["distinct"] or 0 for m in mcs),
        "transitions": sum(m["generated"] or 0 for m in mcs),
        "model_level_leads": leads,
        "open_gaps_assumed": gaps,
        "traces_validated_against_impl": len(trace),
        "samples": [{"doc": trace[i]["doc"], "yaml": trace[i]["yaml"], "observed": trace[i]["obs"]} for i in sample_ids if i < len(trace)],
        "evaluations": len(trace) + len(mtrace) - mut_skipped,
        "distinct_nontrivial": len({json.dumps(r["doc"], sort_keys=True) for r in trace if r["obs"]["clean"] or not r["obs"]["prom_ok"]}),
        "rule": "structured: every abstract document TLC visited (distinct by construction) rendered and run through pint strict + rulefmt; "
                "non-trivial = pint passed it (antecedent true) or Prometheus refused it (consequent false); mutations counted separately below",
        "exhaustive": True,
        "structured_docs_visited_by_tlc": visited,
        "structured_docs_replayed": len(trace),
        "structured_pint_clean": antecedent,
        "structured_prom_refused": refused,
        "mutations_explored": len(mtrace) - mut_skipped,
        "mutations_skipped_pint_comment": mut_skipped,
        "mutations_pint_clean": mut_clean,
        "mutation_bases": len(bases), "fixture_bases": nfix,
        "mutation_operators_seen": ops_seen,
        "binding_drift_records": len(dr),
    }
    return vlib.conclude(ctx, viols, "model_checking", cov, [
        "structured space: TLC model-checks PintClean => PromAccepts for every abstract document within the deviation bound; "
        "every replayed document is executed by the real strict pipeline and the real rulefmt.Parse, TLC judging the recorded outputs",
        "PromAccepts (my transcription of rulefmt + yaml.v3 decoding) is bound to the real loader on every replayed document; a mismatch is exit 2",
        "byte/line/token mutations are exploration only: the implication is judged on observed outputs, nothing is claimed exhaustively",
        "pint default configuration, --offline, Prometheus schema; name validation scheme shared by both (utf-8 default and legacy)",
        "files containing '# ... pint' comments are outside the property and skipped",
        "gaps declared open in known_findings.json (%s) are excepted from the model-level invariant and must be matched by signature on real outputs" % ",".join(gaps),
    ], drift=drift_lines)


def replay(ctx, path):
    v = json.load(open(path))
    return run(ctx, replay_case=v)
