"""C16 - promql/series verdicts agree with what the server holds (spec: SeriesCheck / SeriesCheckTrace).

Level: exploration with model-derived scenarios. TLC enumerates the scenario space of the SeriesCheck model
(selector shape x history of the two candidate series x uptime history x rule set x exemption), checks the
impl-shaped decision tree against the two documented promises P1 / P2 at model level, and emits the scenarios;
the real checks.NewSeriesCheck runs each scenario against the REAL PromQL engine (harness/promfake engine
mode); TLC judges the recorded problems with the antecedents of P1 / P2 taken from the engine's own answers.
"""
import json
import os

import vlib
from vlib import prints, write_ndjson, read_ndjson, MachineryError


def sig_of(v):
    s = v["sc"]
    return "C16:%s:shape=%s:wrap=%s:ha=%s:hb=%s:up=%s:rules=%s:exempt=%s" % (
        v["prop"], s["shape"], s["wrap"], s["ha"], s["hb"], s["up"], s["rules"], s["exempt"])


def judge(ctx, trace, chunk=20000):
    viols, drifts, truths = [], [], []
    for i in range(0, len(trace), chunk):
        ch = trace[i:i + chunk]
        p = write_ndjson(ctx.path("c16_trace_%d.ndjson" % (i // chunk)), ch)
        j = ctx.tlc("SeriesCheckTrace", "SeriesCheckTrace.cfg", workers=1, files={"c16_trace.ndjson": p}, timeout=3000,
                    heap="3g", tag="judge-%d" % (i // chunk))
        done = prints(j, "DONE")
        if not done or done[0][0] != len(ch):
            raise MachineryError("JUDGE consumed %s of %d trace records" % ((j["distinct"] or 2) - 2, len(ch)))
        viols += prints(j, "VIOL")
        drifts += prints(j, "DRIFT")
        truths += prints(j, "TRUTH")
    return viols, drifts, truths


def run(ctx, cases_override=None):
    thorough = ctx.thorough
    leads = []
    if cases_override is None:
        w = int(os.environ.get("VERIF_TLC_WORKERS") or min(vlib.NCPU, 16))
        # ---- MC: the impl-shaped decision tree satisfies P1 and P2 on EVERY scenario of the model
        mc = ctx.tlc("SeriesCheck", "SeriesCheck_MC.cfg", tag="mc", timeout=3000, workers=w, heap="3g", allow_violation=True)
        if mc["invariant_violated"]:
            leads.append(mc["invariant_violated"])
        # ---- GEN (a): every scenario whose metric never had a sample - the stratum in which P2 speaks
        gen = ctx.tlc("SeriesCheck", "SeriesCheck_GenNever.cfg", tag="gen-never", timeout=3000, workers=w, heap="3g", allow_violation=True)
        cases = [v[0] for v in prints(gen, "CASE")]
        cases.sort(key=lambda c: json.dumps(c, sort_keys=True))
        n_never = len(cases)
        # ---- GEN (a'): the series appears while the check's first probe waits in the queue of a busy one-worker client
        gq = ctx.tlc("SeriesCheck", "SeriesCheck_GenQueued.cfg", tag="gen-queued", timeout=3000, workers=w, heap="3g", allow_violation=True)
        qc = [v[0] for v in prints(gq, "CASE")]
        qc.sort(key=lambda c: json.dumps(c, sort_keys=True))
        n_queued = len(qc)
        # ---- GEN (b), thorough: every scenario whose selector returns series now - the stratum in which P1 speaks
        n_now = 0
        if thorough:
            gnow = ctx.tlc("SeriesCheck", "SeriesCheck_GenNow.cfg", tag="gen-now", timeout=3000, workers=w, heap="3g", allow_violation=True)
            nowc = [v[0] for v in prints(gnow, "CASE")]
            nowc.sort(key=lambda c: json.dumps(c, sort_keys=True))
            n_now = len(nowc)
            cases += nowc
        # ---- GEN (c): simulation over the whole space (seeded): one scenario per behaviour
        want = 80000 if thorough else 3000
        sim = ctx.tlc("SeriesCheck", "SeriesCheck_Gen.cfg", tag="gen-sim", timeout=3000, workers=w, heap="3g",
                      simulate=max(1, want // w), depth=6)
        seen = {json.dumps(c, sort_keys=True) for c in cases}
        simc = []
        for v in prints(sim, "CASE"):
            k = json.dumps(v[0], sort_keys=True)
            if k not in seen:
                seen.add(k)
                simc.append(v[0])
        simc.sort(key=lambda c: json.dumps(c, sort_keys=True))
        cases += simc
        cases += qc               # last: each of them takes about 2 s of wall time, spread over the workers
        total = 7 * 8 * 81 * 3 * 6 * 9 + 96
        mcs = [mc]
    else:
        cases, total, mcs = cases_override, 0, []
    cpath = write_ndjson(ctx.path("c16_cases.ndjson"), cases)
    # ---- EXEC
    tpath = ctx.path("c16_trace_all.ndjson")
    ctx.vh("exec-c16", cpath, tpath, timeout=3000)
    trace = read_ndjson(tpath)
    if len(trace) != len(cases):
        raise MachineryError("EXEC recorded %d of %d scenarios" % (len(trace), len(cases)))
    # ---- JUDGE
    jv, jd, jt = judge(ctx, trace)
    if jt:
        raise MachineryError("the engine's ground truth disagrees with the scenario (harness or model of the data is wrong): %s" % (
            json.dumps(jt[0][1])[:600]))
    viols = []
    for cid, v in jv:
        what = ("promql/series reported %s although the selector currently returns %s series on the server" % (
            json.dumps(v["problems"]), v.get("truth_instant"))) if v["prop"] == "P1" else (
            "promql/series reported %s (no Bug on the selector) although its metric had no sample in the lookback window, "
            "no rule produces it and nothing exempts it" % json.dumps(v["problems"]))
        viols.append({"sig": sig_of(v), "what": what + " - scenario %s" % json.dumps(v["sc"]), "case": cases[cid - 1], "detail": v})
    drift = ["scenario %s: %s" % (cid, json.dumps(d)[:400]) for cid, d in jd]
    # A verdict must be reproducible: the scenarios are deterministic, so every violating scenario is executed and judged a
    # second time on its own; what does not reproduce (transport errors while the machine's ephemeral ports or memory are
    # exhausted by other jobs) is dropped with a note, never reported.
    if viols and cases_override is None:
        vcases, seen_sig = [], set()
        for v in viols:
            if v["sig"] not in seen_sig:
                seen_sig.add(v["sig"])
                vcases.append(v["case"])
        cp2 = write_ndjson(ctx.path("c16_recheck_cases.ndjson"), vcases)
        tp2 = ctx.path("c16_recheck_trace.ndjson")
        ctx.vh("exec-c16", cp2, tp2, timeout=1200)
        jv2, _, _ = judge(ctx, read_ndjson(tp2))
        again = {sig_of(v) for _, v in jv2}
        dropped = [v for v in viols if v["sig"] not in again]
        viols = [v for v in viols if v["sig"] in again]
        if dropped:
            print("NOTE property=C16 %d violation(s) did not reproduce on a second execution and were dropped (e.g. %s)" % (
                len(dropped), dropped[0]["sig"]))
    if leads and not viols and cases_override is None:
        raise MachineryError("model-level counterexample (%s) not reproduced on the real code: spec bug" % leads)
    p1 = sum(1 for r in trace if r["truth_instant"] > 0 and r["shape"] != "alerts")
    p2 = sum(1 for r in trace if r["truth_range_points"] == 0)
    classes = {}
    for r in trace:
        for p in r["problems"]:
            k = p["class"] + "/" + p["severity"]
            classes[k] = classes.get(k, 0) + 1
    if cases_override is None and (p1 == 0 or p2 == 0):
        raise MachineryError("vacuous run: P1 antecedent true in %d, P2 antecedent true in %d scenarios" % (p1, p2))
    si = len(cases) // 3
    cov = {
        "states": sum(m["distinct"] or 0 for m in mcs),
        "transitions": sum(m["generated"] or 0 for m in mcs),
        "model_level_leads": leads,
        "traces_validated_against_impl": len(cases),
        "samples": [{"case": cases[si], "record": trace[si]}] if cases else [],
        "evaluations": len(cases),
        "distinct_nontrivial": sum(1 for r in trace if r["probes"] or r["problems"]),
        "rule": "scenarios are distinct (shape, history A, history B, uptime, rule set, exemption) tuples enumerated by TLC; "
                "non-trivial = the check sent at least one probe or reported something (not skipped by a comment)",
        "exhaustive": False,
        "scenario_space": total,
        "scenarios_never_present_all": n_never if cases_override is None else 0,
        "scenarios_appearing_while_queued": n_queued if cases_override is None else 0,
        "scenarios_present_now_all": n_now if cases_override is None else 0,
        "p1_antecedent_true": p1,
        "p2_antecedent_true": p2,
        "problem_classes_observed": classes,
        "probe_requests_distinct_kinds": len({q for r in trace for q in r["probes"]}),
        "median_ms_per_scenario": sorted(r["took_ms"] for r in trace)[len(trace) // 2] if trace else 0,
    }
    return vlib.conclude(ctx, viols, "exploration", cov, [
        "exploration, not model checking of pint: TLC enumerates the scenario space and checks P1/P2 on the model of the decision "
        "tree; the verdict comes from the real check run on each scenario against the real PromQL engine",
        "antecedents of P1 (selector returns series now) and P2 (metric without any sample in the lookback) are taken from the "
        "engine itself (instant query at now; range evaluation of the metric over the lookback at 1m)",
        "one selector per rule; metric m with series {l=v1} and {l=v2}; histories are unions of 30-minute cells whose edges are "
        ">= 10 min away from every threshold the check compares with, so wall-clock drift during a scenario cannot change a verdict",
        "lookbackRange 8h / lookbackStep 5m via check \"promql/series\" {} decoded by the real config loader; no other servers",
        "P2 exemptions: disable / snooze comments, ignoreMetrics, rule/set min-age (the last one conservatively: no verdict)",
    ], drift=drift)


def replay(ctx, path):
    """Re-run one recorded case for its verdict line. A replay is not a tier run: it writes no evidence (the counts of a
    one-case run would not describe an exploration, and the evidence file keeps describing the last quick/thorough run)."""
    v = json.load(open(path))
    os.environ["VERIF_NO_EVIDENCE"] = "1"
    return run(ctx, cases_override=[v["case"]])
