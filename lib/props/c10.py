"""C10 - text excluded by ignore comments cannot influence the result (spec: Masker / MaskerTrace)."""
import json
import vlib
from vlib import prints, write_ndjson, read_ndjson, MachineryError

CFG = """SPECIFICATION Spec
CONSTANTS
  MaxLen = %d
  TextOnCtl = %s
INVARIANTS %s
CHECK_DEADLOCK FALSE
"""


def sig_of(v):
    return "C10:%s:%s:k=%s:%s" % (v["mode"], v["at"], v["k"], ",".join(v["lines"]))


def run(ctx, cases_override=None):
    thorough = ctx.thorough
    # ---- MC: Masker |= non-interference, exhaustive for all files up to mc_len lines
    mc_len = 5 if thorough else 4
    mc = ctx.tlc("Masker", "c10_mc.cfg", files={"c10_mc.cfg": CFG % (mc_len, "FALSE", "Inv_FoldAgrees Inv_C10 Inv_Flags")},
                 timeout=3000, coverage=False, allow_violation=True)
    mc2 = ctx.tlc("Masker", "c10_mc2.cfg", files={"c10_mc2.cfg": CFG % (3 if not thorough else 4, "TRUE", "Inv_FoldAgrees Inv_C10 Inv_Flags")},
                  timeout=3000, allow_violation=True)
    leads = [m["invariant_violated"] for m in (mc, mc2) if m["invariant_violated"]]
    # ---- GEN: every file up to gen_len lines, with the documented exclusion per line
    if cases_override is None:
        gen_len = 4 if thorough else 3
        gen = ctx.tlc("Masker", "c10_gen.cfg", files={"c10_gen.cfg": CFG % (gen_len, "FALSE", "EmitCase")}, timeout=3000)
        cases = [v[0] for v in prints(gen, "CASE")]
        gen2 = ctx.tlc("Masker", "c10_gen2.cfg", files={"c10_gen2.cfg": CFG % (gen_len - 1, "TRUE", "EmitCase")}, timeout=3000)
        cases += [v[0] for v in prints(gen2, "CASE")]
        if gen["distinct"] - 1 != len(prints(gen, "CASE")):
            raise MachineryError("GEN emitted %d cases for %d states" % (len(prints(gen, "CASE")), gen["distinct"]))
    else:
        cases = cases_override
    cases.sort(key=lambda c: json.dumps(c, sort_keys=True))
    cpath = write_ndjson(ctx.path("c10_cases.ndjson"), cases)
    # ---- EXEC
    tpath = ctx.path("c10_trace.ndjson")
    ctx.vh("exec-c10", cpath, tpath, env={"C10_TEXT_ON_CTL": "1"})
    trace = read_ndjson(tpath)
    # ---- JUDGE
    j = ctx.tlc("MaskerTrace", "MaskerTrace.cfg", workers=1, files={"c10_trace.ndjson": tpath}, timeout=3000, heap="8g")
    done = prints(j, "DONE")
    if not done or done[0][0] != len(trace):
        raise MachineryError("JUDGE consumed %d of %d trace records" % ((j["distinct"] or 2) - 2, len(trace)))
    viols = []
    for cid, v in prints(j, "VIOL"):
        viols.append({"sig": sig_of(v), "what": "replacing excluded line %s of %s (%s, placed %s) changes the lint result" % (
            v["k"], v["lines"], v["mode"], v["at"]), "case": cases[cid - 1], "detail": v})
    drift = ["case %s: %s" % (cid, json.dumps(d)[:300]) for cid, d in prints(j, "DRIFT")]
    if leads and not viols and cases_override is None:
        raise MachineryError("model-level counterexample (%s) not reproduced on the real code: spec bug" % leads)
    nvar = [r for r in trace if r["ev"] == "Variants"]
    nshift = [r for r in trace if r["ev"] == "Shift"]
    cov = {
        "states": mc["distinct"] + mc2["distinct"],
        "transitions": mc["generated"] + mc2["generated"],
        "model_level_leads": leads,
        "traces_validated_against_impl": len(cases),
        "samples": [{"case": cases[len(cases) // 3], "trace": [r for r in trace if r.get("id") == len(cases) // 3 + 1][:6]}],
        "evaluations": sum(r["n"] for r in nvar) + 2 * len(nshift),
        "distinct_nontrivial": len({(r["id"], r["k"]) for r in nvar}),
        "rule": "GEN: every line-class sequence up to the bound (TLC, exhaustive); non-trivial = (file, excluded line) pairs, "
                "each replaced by every allowed line class x 5 hostile payloads, at 3 placements x strict/relaxed",
        "exhaustive": True,
        "mc_max_len": mc_len, "gen_cases": len(cases), "trace_records": len(trace),
        "variant_records": len(nvar), "shift_records": len(nshift),
        "readline_events": sum(1 for r in trace if r["ev"] == "ReadLine"),
    }
    return vlib.conclude(ctx, viols, "model_checking", cov, [
        "TLC model-checks non-interference of the impl-shaped masker for all files within the bound",
        "real ContentReader is stepped through hook parser.VerifReadLines (tag verif) and every step is validated against Masker!ReadLine",
        "verdict comes from the real in-process lint pipeline (strict+relaxed, default offline checks) on concrete files",
        "payload vocabulary: 5 hostile texts; control comments are comment-only lines except ignore/line (TextOnCtl cases add text in front)",
    ], drift=drift)


def replay(ctx, path):
    v = json.load(open(path))
    return run(ctx, cases_override=[v["case"]])
