"""C19 - relaxed mode finds the same rules as strict mode, wherever they are nested
(spec: Layout / LayoutGen / LayoutWrapTrace).

MC+GEN  TLC grows (document, wrapper) pairs by edit actions (spec/LayoutGen.tla): exhaustively every wrapper of up to
        two edits (parent mapping / sequence levels with keys spec|rules|data, steps, sibling keys before/after, extra
        documents, embedding in a literal block) around the base strict document and the bare rule list; by
        simulation wrappers of up to 4 levels around restyled documents. The displacement arithmetic is checked
        for consistency on every generated pair (Inv_Consistent: Displaced).
EXEC    vh exec-c19: real parser strict+relaxed on the unwrapped document, relaxed on the wrapped one.
JUDGE   spec/LayoutWrapTrace.tla: strict = relaxed on the strict-valid file; wrapped = displaced(unwrapped).
"""
import json
import os

import vlib
from vlib import write_ndjson, MachineryError
from props import c06


def jobs_for(ctx):
    s = ctx.seed
    clean = dict(steps=(2, 4), leads=(0,), tbs=(0, 1), clean=True, seps=("sp", "tab"))
    acts = ("scalar", "indent", "filler", "swap", "add", "base", "wrap", "crlf")
    jobs = []
    if not ctx.thorough:
        jobs.append(dict(tag="xw2", cfg=c06.gen_cfg(edits=2, acts=("wrap", "base"), focus=c06.ALL_FOCUS, **clean), workers=4))
        jobs.append(dict(tag="xadd", cfg=c06.gen_cfg(edits=3, acts=("add",), focus=c06.ALL_FOCUS, **clean), workers=2))
        # phase 3: wrapper edits around a document already embedded under two parent keys (embedding depth 2)
        jobs.append(dict(tag="xe2", cfg=c06.gen_cfg(edits=1, acts=("wrap", "base"), focus=c06.ALL_FOCUS, wrap0=1, **clean)))
        for k in range(3):
            jobs.append(dict(tag="wsim%d" % k, simulate=25, depth=9, seed=s * 100 + k,
                             cfg=c06.gen_cfg(ginds=(0, 2, 4), rsteps=(0, 2), edits=8, acts=acts, focus=c06.ALL_FOCUS, sim=True, **clean)))
        for k in range(2):
            jobs.append(dict(tag="deep%d" % k, simulate=60, depth=6, seed=s * 100 + 20 + k,
                             cfg=c06.gen_cfg(edits=5, acts=("wrap", "base"), focus=c06.ALL_FOCUS, sim=True, **clean)))
    else:
        jobs.append(dict(tag="xw2", cfg=c06.gen_cfg(edits=2, acts=("wrap", "base"), focus=c06.ALL_FOCUS, **clean), workers=4))
        jobs.append(dict(tag="xadd", cfg=c06.gen_cfg(edits=4, acts=("add",), focus=c06.ALL_FOCUS, **clean), workers=2))
        jobs.append(dict(tag="xe2", cfg=c06.gen_cfg(edits=2, acts=("wrap", "base"), focus=c06.ALL_FOCUS, wrap0=1, **clean), workers=2))
        jobs.append(dict(tag="xs1", cfg=c06.gen_cfg(edits=1, acts=("scalar",), focus=("expr", "alert", "annotations.v"), **clean)))
        for k in range(12):
            jobs.append(dict(tag="wsim%d" % k, simulate=120, depth=10, seed=s * 100 + k,
                             cfg=c06.gen_cfg(ginds=(0, 2, 4), rsteps=(0, 2), edits=9, acts=acts, focus=c06.ALL_FOCUS, sim=True, **clean)))
        for k in range(4):
            jobs.append(dict(tag="deep%d" % k, simulate=250, depth=7, seed=s * 100 + 20 + k,
                             cfg=c06.gen_cfg(edits=6, acts=("wrap", "base"), focus=c06.ALL_FOCUS, sim=True, **clean)))
    return jobs


def sig_of(v):
    return "C19:%s:%s:%s" % (v["kind"], v["diff"], v["shape"])


def run(ctx, cases_override=None):
    ctx.build_vh()
    if cases_override is None:
        cases, gstats = c06.run_gen(ctx, jobs_for(ctx), par=3)
    else:
        cases, gstats = cases_override, []
    cases.sort(key=lambda c: json.dumps(c["lay"], sort_keys=True))
    for i, c in enumerate(cases):
        c["id"] = i + 1
    cpath = write_ndjson(ctx.path("c19_cases.ndjson"), cases)
    nontriv = lambda c: bool(c["lay"]["wrap"]["levels"] or c["lay"]["wrap"]["docB"] or c["lay"]["wrap"]["docA"]
                             or c["lay"]["wrap"]["mix"] or c["lay"]["wrap"]["docE"] != "none")
    wr = [c for c in cases if nontriv(c)]
    sample = dict(wr[len(wr) // 3] if wr else cases[0])
    for c in cases:                     # the rendered text stays on disk only (memory)
        c.pop("lines", None)
        c.pop("base", None)
    tpath = ctx.path("c19_trace.ndjson")
    ctx.vh("exec-c19", cpath, tpath)
    j = c06.run_judge(ctx, "LayoutWrapTrace", tpath, "c19", slices=6 if not ctx.thorough else 14)
    viols = []
    for cid, v in j["VIOL"]:
        c = cases[cid - 1]
        what = ("relaxed mode differs from strict mode on a strict-valid file (first difference: %s)" % v["diff"]) if v["kind"] == "modes" else \
               ("rules found in the wrapped document (%s) are not the rules of the unwrapped one displaced by the wrapper (first difference: %s)"
                % (v["shape"], v["diff"]))
        viols.append({"sig": sig_of(v), "what": what, "case": {"lay": c["lay"]}, "detail": v})
    # binding failures make the run unusable (exit 2) - unless real violations were found as well: those stand
    if j["UNEXP"] and not vlib.partition_violations(ctx.prop, viols)[1]:
        cid, u = j["UNEXP"][0]
        raise MachineryError("%d record(s) where the unwrapped document is not what the layout wrote (rendering bug or parser change): "
                             "case %s %s\n%s" % (len(j["UNEXP"]), cid, json.dumps(u), json.dumps(cases[cid - 1]["lay"])[:3000]))
    if os.environ.get("C19_DUMP"):
        write_ndjson(os.environ["C19_DUMP"], [dict(v["detail"], sig=v["sig"]) for v in viols])
    wrapped = wr
    shapes = set()
    rules = 0
    for c in cases:
        w = c["lay"]["wrap"]
        shapes.add((c["lay"]["base"], tuple((lv["seq"], lv["key"], lv["step"], lv["sibB"], lv["sibA"], lv["sl"]) for lv in w["levels"]),
                    w["embed"], w["embed2"], w["docB"], w["docA"], w["docE"], w["mix"]))
        rules += len(c["lay"]["rules"])
    cov = {
        "evaluations": 3 * len(cases),
        "distinct_nontrivial": len(wrapped),
        "rule": "one case = one distinct (document layout, wrapper) pair generated by TLC (spec/LayoutGen.tla), parsed three times "
                "(strict, relaxed, wrapped+relaxed); non-trivial = the wrapper changes the file (at least one level, sibling or document)",
        "samples": [{"wrap": sample["lay"]["wrap"], "base": sample["lay"]["base"], "lines": sample["lines"]}],
        "exhaustive": False,
        "exhaustive_parts": [g for g in gstats if g["exhaustive"]],
        "simulated_parts": [g for g in gstats if not g["exhaustive"]],
        "pairs": len(cases), "distinct_wrappers": len(shapes), "rules_compared": rules,
        "levels_hist": {str(k): sum(1 for c in cases if len(c["lay"]["wrap"]["levels"]) == k) for k in range(5)},
        "embedded": sum(1 for c in cases if c["lay"]["wrap"]["embed"]),
        "with_sequence_level": sum(1 for c in cases if any(lv["seq"] for lv in c["lay"]["wrap"]["levels"])),
        "with_sibling_rule_list": sum(1 for c in cases if any(lv["sl"] for lv in c["lay"]["wrap"]["levels"])),
        "with_alias_rule": sum(1 for c in cases if any(r["alias"] for r in c["lay"]["rules"])),
        "with_group_header_keys": sum(1 for c in cases if c["lay"]["ghdr"]),
        "with_thanos_key": sum(1 for c in cases if any(g["k"] == "prs" for g in c["lay"]["ghdr"])),
        "with_merge_rule": sum(1 for c in cases if any(r["merge"] for r in c["lay"]["rules"])),
        "with_crlf": sum(1 for c in cases if c["lay"]["crlf"]),
        "embedded_depth2": sum(1 for c in cases if c["lay"]["wrap"]["embed2"]),
        "with_mixed_list": sum(1 for c in cases if c["lay"]["wrap"]["mix"]),
        "with_empty_document": sum(1 for c in cases if c["lay"]["wrap"]["docE"] != "none"),
        "states": sum(g["states"] or 0 for g in gstats),
        "explanation": "exploration over a TLA+-generated layout/wrapper grammar with a TLA+-evaluated oracle; no system state machine is "
                       "model-checked. Part xw2 is exhaustive: every wrapper reachable by two wrapper edits around the base document "
                       "and the bare rule list.",
    }
    return vlib.conclude(ctx, viols, "exploration", cov, [
        "documents use only scalar layouts on which C06 has no open finding (spec/LayoutGen.tla CleanSc), so a position defect of one field cannot show up here as a wrapper difference",
        "wrapper vocabulary: keys spec|rules|data, mapping and sequence levels (<= 4), steps 0/2/4, sibling scalar keys, one extra document before/after, embedding in a literal block scalar",
        "empty lines are left empty by a wrapper except inside an embedding block scalar",
        "TLC renders both documents and computes the displacement; the Go harness only runs the parser and projects its result",
    ])


def replay(ctx, path):
    return run(ctx, cases_override=c06.render_replay(ctx, path))
