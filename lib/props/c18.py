"""C18 - an accepted configuration never crashes a later lint run (spec: ConfigTotality / ConfigTotalityTrace)."""
import json
import os
import vlib
from vlib import prints, write_ndjson, read_ndjson, MachineryError

CFG = """SPECIFICATION Spec
CONSTANTS
  MustExpandTotal = %s
  Full = %s
INVARIANTS %s
CHECK_DEADLOCK FALSE
"""


def run(ctx, cases_override=None):
    thorough = ctx.thorough
    full = "TRUE" if thorough else "FALSE"
    # ---- MC: the option table with the validators and use sites of the current code is total
    mc = ctx.tlc("ConfigTotality", "c18_mc.cfg", files={"c18_mc.cfg": CFG % ("TRUE", "TRUE", "Inv_C18 Inv_RejectsOnlyInvalid Inv_AnchorKeepsValid Inv_GroupedNeedsOwnValidation")},
                 timeout=1800, allow_violation=True)
    leads = [mc["invariant_violated"]] if mc["invariant_violated"] else []
    # vacuity guard: the same table with the pre-fix MustExpand (nil on error) must yield the F7 counterexample
    mc0 = ctx.tlc("ConfigTotality", "c18_mc0.cfg", files={"c18_mc0.cfg": CFG % ("FALSE", "TRUE", "Inv_C18")},
                  timeout=1800, allow_violation=True, workers=4)
    if mc0["invariant_violated"] != "Inv_C18":
        raise MachineryError("vacuity guard: the model with a partial MustExpand does not violate Inv_C18")
    # ---- GEN
    if cases_override is None:
        gen = ctx.tlc("ConfigTotality", "c18_gen.cfg", files={"c18_gen.cfg": CFG % ("TRUE", full, "EmitCase")}, timeout=1800)
        cases = [v[0] for v in prints(gen, "CASE")]
        cases.sort(key=lambda c: json.dumps(c, sort_keys=True))
    else:
        cases = cases_override
    if not cases:
        raise MachineryError("GEN produced no cases")
    cpath = write_ndjson(ctx.path("c18_cases.ndjson"), cases)
    # ---- EXEC: the real binary
    pint = ctx.build_pint()
    tpath = ctx.path("c18_trace.ndjson")
    ctx.vh("exec-c18", cpath, tpath, pint, timeout=7000)
    trace = read_ndjson(tpath)
    trace.sort(key=lambda r: r.get("id", 0))
    write_ndjson(tpath, trace)
    # ---- JUDGE
    # development aid: C18_MUSTEXPAND_TOTAL=FALSE binds the trace to the pre-F7-fix semantics (used with
    # VERIF_REPO pointing at a tree with mutants/C18-revert-f7.patch applied to validate the Expand model)
    jcfg = "SPECIFICATION TraceSpec\nCONSTANTS\n  MustExpandTotal = %s\n  Full = TRUE\nCHECK_DEADLOCK FALSE\n" % (
        "FALSE" if os.environ.get("C18_MUSTEXPAND_TOTAL") == "FALSE" else "TRUE")
    j = ctx.tlc("ConfigTotalityTrace", "c18_judge.cfg", workers=1, files={"c18_trace.ndjson": tpath, "c18_judge.cfg": jcfg},
                timeout=3000, heap="8g")
    done = prints(j, "DONE")
    if not done or done[0][0] != len(trace):
        raise MachineryError("JUDGE consumed %s of %d trace records" % (done[0][0] if done else "?", len(trace)))
    viols = []
    for cid, v in prints(j, "VIOL"):
        viols.append({"sig": v["sig"], "case": cases[cid - 1], "detail": v,
                      "what": "configuration with %s = %r is accepted by `pint config` but `pint lint` on a rule with %s crashes "
                              "(exit %s, panic in %s)" % (v["opt"], v["text"], json.dumps({k: v["rule"][k] for k in ("kind", "name", "foo", "summary")}),
                                                          v["exit"], v["where"] or "?")})
    drift = ["case %s: %s" % (cid, json.dumps(d)[:500]) for cid, d in prints(j, "DRIFT")]
    hangs = sorted({h[1] for h in prints(j, "HANG")})
    for h in hangs[:5]:
        print("NOTE property=C18 (not a crash, outside the property) accepted configuration makes `pint lint` hang: %s" % h)
    if leads and not viols and cases_override is None:
        raise MachineryError("model-level counterexample (%s) not reproduced on the real code: spec bug" % leads)
    recs = [r for r in trace if r["ev"] == "Case"]
    acc = [r for r in recs if r["accepted"]]
    nontriv = {(r["opt"], r["cls"], r["cls2"], json.dumps(r["rule"], sort_keys=True)) for r in acc}
    expanding = [r for r in acc if "{{" in r["text"]]
    k = len(recs) // 2
    cov = {
        "states": mc["distinct"], "transitions": mc["generated"], "model_level_leads": leads,
        "model_with_partial_MustExpand_violates": mc0["invariant_violated"],
        "traces_validated_against_impl": len(recs),
        "samples": [{k2: expanding[len(expanding) // 2][k2] for k2 in ("opt", "cls", "text", "rule", "accepted", "exit", "panic")}] if expanding else
                   [{k2: recs[k][k2] for k2 in ("opt", "cls", "text", "rule", "accepted", "exit", "panic")}],
        "evaluations": len(recs),
        "distinct_nontrivial": len(nontriv),
        "rule": "GEN: every option of the table x every value class of its type x rule-content classes, plus 8 classes of two-option "
                "configurations x value subsets (TLC exhaustive). quick: values referencing rule fields meet all 62 rule classes, other "
                "pattern options 15, options that are only parsed or copied 3, pairs 6; thorough: all (value, rule) pairs. non-trivial = "
                "distinct (option(s), value(s), rule) cases whose configuration the binary accepted, so that a lint run took place",
        "exhaustive": True,
        "options": len({r["opt"] for r in recs if not r["pair"]}), "option_pairs": len({r["opt"] for r in recs if r["pair"]}),
        "pair_cases": sum(1 for r in recs if r["pair"]), "configurations": len({(r["opt"], r["cls"], r["cls2"]) for r in recs}),
        "accepted_configurations": len({(r["opt"], r["cls"], r["cls2"]) for r in acc}),
        "lint_runs": sum(1 for r in recs if r["ran"]), "templated_lint_runs": len(expanding),
        "lint_runs_against_fake_prometheus": sum(1 for r in recs if r["ran"] and r["mode"] == "prom"),
        "hangs_observed_not_judged": hangs,
        "anchor_probe": [r for r in trace if r["ev"] == "AnchorProbe"][0] if cases_override is None else None,
    }
    if cov["anchor_probe"] is None:
        del cov["anchor_probe"]
    return vlib.conclude(ctx, viols, "model_checking", cov, [
        "TLC checks Accepts => ~Panics over the whole option table (validators and use sites transcribed from internal/config and internal/checks)",
        "every generated (option, value, rule) case is executed with the real binary: `pint config` decides acceptance, `pint [--offline] lint` "
        "on the rule file decides crash (exit status outside {0,1} or panic/SIGSEGV on stderr)",
        "one option under test per configuration; value classes have one concrete representative each; rules carry the metacharacter "
        "in the name, in label foo or in annotation summary",
        "options of checks that query Prometheus (cost, alerts, promql/series settings, prometheus{}, discovery{}) are linted against a "
        "minimal fake server inside the harness (one series that is always present, a metric `gone` that only has history); "
        "repository{} options are covered for acceptance only (a lint run never reads them; `pint ci` reporters are not run)",
        "a lint run that outlives the 12 s deadline twice is recorded as a hang and reported as a NOTE: a stall is not a crash",
    ], drift=drift)


def replay(ctx, path):
    v = json.load(open(path))
    return run(ctx, cases_override=[v["case"]])
