"""YAML fixture corpus for C01/C02 (off-model exploration): documents found in the repository's own tests.

Sources, all read from ctx.repo at run time (nothing is hard-coded):
  * testscript archives cmd/pint/tests/*.txt  (txtar sections whose name ends in .yml/.yaml or lives under rules/)
  * Go string literals in *_test.go under internal/ and cmd/ that look like rule YAML
  * *.yml / *.yaml files under internal/
"""
import glob
import os
import re

_ESC = {"n": "\n", "t": "\t", "r": "\r", "\\": "\\", '"': '"', "'": "'", "a": "\a", "b": "\b", "f": "\f", "v": "\v", "0": "\0"}


def _unquote_go(lit):
    """Decode the body of an interpreted Go string literal to bytes (latin-1 carried str for \\x escapes)."""
    out = bytearray()
    i = 0
    n = len(lit)
    while i < n:
        c = lit[i]
        if c != "\\":
            out += c.encode("utf-8")
            i += 1
            continue
        i += 1
        if i >= n:
            break
        e = lit[i]
        if e == "x" and i + 2 < n + 1:
            try:
                out.append(int(lit[i + 1:i + 3], 16))
            except ValueError:
                pass
            i += 3
        elif e == "u":
            try:
                out += chr(int(lit[i + 1:i + 5], 16)).encode("utf-8", "surrogatepass")
            except ValueError:
                pass
            i += 5
        elif e == "U":
            try:
                out += chr(int(lit[i + 1:i + 9], 16)).encode("utf-8", "surrogatepass")
            except (ValueError, OverflowError):
                pass
            i += 9
        elif e in "01234567" and i + 2 < n and lit[i:i + 3].isdigit():
            try:
                out.append(int(lit[i:i + 3], 8) & 0xFF)
            except ValueError:
                pass
            i += 3
        else:
            out += _ESC.get(e, e).encode("utf-8")
            i += 1
    return bytes(out)


_LOOKS = re.compile(rb"(expr|record|alert|groups|rules)\s*:")
_INTERP = re.compile(r'"((?:[^"\\\n]|\\.)*)"')
_RAW = re.compile(r"`([^`]*)`")


def _txtar_sections(text):
    name, buf = None, []
    for line in text.split("\n"):
        m = re.match(r"^-- (.+) --$", line)
        if m:
            if name is not None:
                yield name, "\n".join(buf) + "\n"
            name, buf = m.group(1).strip(), []
        elif name is not None:
            buf.append(line)
    if name is not None:
        yield name, "\n".join(buf) + "\n"


def collect(repo, limit=None):
    """Returns a sorted list of (name, bytes), deduplicated by content."""
    seen, out = set(), []

    def add(name, b):
        if not b or len(b) > 20000 or b in seen:
            return
        seen.add(b)
        out.append((name, b))

    for p in sorted(glob.glob(os.path.join(repo, "cmd/pint/tests/*.txt"))):
        try:
            text = open(p, encoding="utf-8", errors="surrogateescape").read()
        except OSError:
            continue
        for name, body in _txtar_sections(text):
            if re.search(r"\.(yml|yaml)$", name) or name.startswith("rules/"):
                add("txtar:%s:%s" % (os.path.basename(p), name), body.encode("utf-8", "surrogateescape"))
    for root in ("internal", "cmd"):
        for p in sorted(glob.glob(os.path.join(repo, root, "**", "*_test.go"), recursive=True)):
            try:
                src = open(p, encoding="utf-8", errors="replace").read()
            except OSError:
                continue
            k = 0
            for m in _RAW.finditer(src):
                b = m.group(1).encode("utf-8")
                if _LOOKS.search(b):
                    k += 1
                    add("go:%s:raw%d" % (os.path.relpath(p, repo), k), b)
            k = 0
            for m in _INTERP.finditer(src):
                if "\\n" not in m.group(1) and ":" not in m.group(1):
                    continue
                b = _unquote_go(m.group(1))
                if _LOOKS.search(b):
                    k += 1
                    add("go:%s:str%d" % (os.path.relpath(p, repo), k), b)
    for p in sorted(glob.glob(os.path.join(repo, "internal", "**", "*.y*ml"), recursive=True)):
        try:
            add("file:" + os.path.relpath(p, repo), open(p, "rb").read())
        except OSError:
            pass
    out.sort(key=lambda t: t[0])
    if limit:
        out = out[:limit]
    return out
