#!/bin/sh
# usage: confirm_seed.sh <PID> <n> <dest-dir-in-repo> <pkg> <run-regex>
# Copies demo/* of the seeded change into <dest-dir>, runs `go test -run <regex> <pkg>` with the change (expect FAIL)
# and without it (expect ok), in a scratch worktree of /repo HEAD that is removed afterwards.
PID=$1; N=$2; DEST=$3; PKG=$4; RUN=$5
SRC=${SEED_SRC:-/tmp/seed-$PID-out/$N}; WT=/tmp/adopt-$PID-$N
unset GOSUMDB GOTOOLCHAIN; export GOFLAGS=-mod=mod GOPROXY=off
git -C /repo worktree remove --force $WT 2>/dev/null
git -C /repo worktree add -q --detach $WT HEAD || exit 2
cd $WT || exit 2
git apply $SRC/patch.diff || { echo "PATCH DOES NOT APPLY"; cd /; git -C /repo worktree remove --force $WT; exit 2; }
go build ./... || { echo "BUILD FAILS"; cd /; git -C /repo worktree remove --force $WT; exit 2; }
mkdir -p $DEST; cp -r $SRC/demo/* $DEST/
go test -count=1 -run "$RUN" $PKG > /tmp/adopt-$PID-$N.with.log 2>&1; W=$?
git apply -R $SRC/patch.diff
go test -count=1 -run "$RUN" $PKG > /tmp/adopt-$PID-$N.without.log 2>&1; WO=$?
echo "$PID-$N: demo with change rc=$W (want !=0), without rc=$WO (want 0)"
[ $WO != 0 ] && tail -5 /tmp/adopt-$PID-$N.without.log
cd /; git -C /repo worktree remove --force $WT; rm -f /tmp/adopt-$PID-$N.*.log
[ $W != 0 ] && [ $WO = 0 ]
