#!/usr/bin/env python3
"""adopt.py <PID> <n> <needs...>  — copy a confirmed seeded change from /tmp/seed-<PID>-out/<n> to /verif/seeded/<PID>-<n>/
with meta.json. The demo must already have been confirmed with lib/confirm_seed*.sh (pass --demo-cmd to record it)."""
import json, os, shutil, sys, argparse
ap = argparse.ArgumentParser()
ap.add_argument("pid"); ap.add_argument("n"); ap.add_argument("--needs", required=True)
ap.add_argument("--demo-cmd", required=True); ap.add_argument("--summary", required=True)
ap.add_argument("--src", default=None)
a = ap.parse_args()
src = a.src or "/tmp/seed-%s-out/%s" % (a.pid, a.n)
dst = "/verif/seeded/%s-%s" % (a.pid, a.n)
if os.path.exists(dst): shutil.rmtree(dst)
os.makedirs(dst)
shutil.copy(os.path.join(src, "patch.diff"), dst)
shutil.copytree(os.path.join(src, "demo"), os.path.join(dst, "demo"))
if os.path.exists(os.path.join(src, "README.md")): shutil.copy(os.path.join(src, "README.md"), dst)
meta = {"property": a.pid, "summary": a.summary, "needs_to_manifest": a.needs,
        "origin": "independent sub-agent given only the property text and a scratch worktree",
        "confirmed": {"demo_cmd": a.demo_cmd, "demo_with_change": "FAIL", "demo_without_change": "PASS",
                      "builds": True, "full_suite_with_change": "pending"},
        "detected_by": {}}
json.dump(meta, open(os.path.join(dst, "meta.json"), "w"), indent=1)
print("adopted", dst)
