package promfake

import (
	"bytes"
	"encoding/json"
	"net/http"
	"sort"
	"sync"
	"time"

	"github.com/prometheus/prometheus/model/labels"
)

// PSeries is one series of a presence model: present at time t iff the cell of t is in Cells.
type PSeries struct {
	Labels map[string]string
	Cells  map[int64]bool
}

// Presence is the presence-mode backend. Times are milliseconds; the cell of t is floor((t-BaseMs)/UnitMs).
type Presence struct {
	BaseMs int64
	UnitMs int64
	Series []PSeries

	mu      sync.Mutex
	hold    bool
	log     []*RangeReq
	changed chan struct{}
}

// RangeReq is one logged query_range request.
type RangeReq struct {
	Seq                    int
	Query                  string
	StartMs, EndMs, StepMs int64
	release                chan struct{}
	done                   chan struct{}
	released               bool
}

func NewPresence(baseMs, unitMs int64, series []PSeries, hold bool) *Presence {
	return &Presence{BaseMs: baseMs, UnitMs: unitMs, Series: series, hold: hold, changed: make(chan struct{}, 1)}
}

func floorDiv(a, b int64) int64 {
	q := a / b
	if (a%b != 0) && ((a < 0) != (b < 0)) {
		q--
	}
	return q
}

func (p *Presence) present(s *PSeries, tMs int64) bool {
	return s.Cells[floorDiv(tMs-p.BaseMs, p.UnitMs)]
}

// Requests returns the query_range requests seen so far, in arrival order.
func (p *Presence) Requests() []*RangeReq {
	p.mu.Lock()
	defer p.mu.Unlock()
	return append([]*RangeReq(nil), p.log...)
}

// WaitRequests blocks until at least n query_range requests have arrived (or the timeout passes) and
// returns the requests seen.
func (p *Presence) WaitRequests(n int, timeout time.Duration) []*RangeReq {
	deadline := time.NewTimer(timeout)
	defer deadline.Stop()
	for {
		p.mu.Lock()
		got := len(p.log)
		p.mu.Unlock()
		if got >= n {
			return p.Requests()
		}
		select {
		case <-p.changed:
		case <-deadline.C:
			return p.Requests()
		}
	}
}

// Release lets a held request be answered and waits until its response has been written.
func (p *Presence) Release(r *RangeReq) {
	p.mu.Lock()
	if !r.released {
		r.released = true
		close(r.release)
	}
	p.mu.Unlock()
	<-r.done
}

// SetHold switches holding on or off; switching it off releases everything pending.
func (p *Presence) SetHold(h bool) {
	if !h {
		p.ReleaseAll()
		return
	}
	p.mu.Lock()
	p.hold = true
	p.mu.Unlock()
}

// ReleaseAll stops holding: everything pending and everything that arrives later is answered at once.
func (p *Presence) ReleaseAll() {
	p.mu.Lock()
	p.hold = false
	for _, r := range p.log {
		if !r.released {
			r.released = true
			close(r.release)
		}
	}
	p.mu.Unlock()
}

func (p *Presence) ServeQueryRange(w http.ResponseWriter, r *http.Request) {
	start, err1 := ParseTimeMs(r.Form.Get("start"))
	end, err2 := ParseTimeMs(r.Form.Get("end"))
	step, err3 := ParseTimeMs(r.Form.Get("step"))
	if err1 != nil || err2 != nil || err3 != nil || step <= 0 {
		WriteError(w, 400, "bad_data", "invalid parameter")
		return
	}
	req := &RangeReq{Query: r.Form.Get("query"), StartMs: start, EndMs: end, StepMs: step,
		release: make(chan struct{}), done: make(chan struct{})}
	p.mu.Lock()
	req.Seq = len(p.log)
	p.log = append(p.log, req)
	if !p.hold {
		req.released = true
		close(req.release)
	}
	p.mu.Unlock()
	select {
	case p.changed <- struct{}{}:
	default:
	}
	defer close(req.done)
	select {
	case <-req.release:
	case <-r.Context().Done():
		return
	}
	if end < start {
		WriteError(w, 400, "bad_data", "end timestamp must not be before start time")
		return
	}
	var buf bytes.Buffer
	buf.WriteString(`{"status":"success","data":{"resultType":"matrix","result":[`)
	first := true
	for _, i := range p.promOrder() {
		s := &p.Series[i]
		var vals bytes.Buffer
		n := 0
		for t := start; t <= end; t += step {
			if p.present(s, t) {
				if n > 0 {
					vals.WriteByte(',')
				}
				vals.WriteByte('[')
				vals.WriteString(FormatTimeMs(t))
				vals.WriteString(`,"1"]`)
				n++
			}
		}
		if n == 0 {
			continue
		}
		if !first {
			buf.WriteByte(',')
		}
		first = false
		m, _ := json.Marshal(s.Labels)
		buf.WriteString(`{"metric":`)
		buf.Write(m)
		buf.WriteString(`,"values":[`)
		buf.Write(vals.Bytes())
		buf.WriteString(`]}`)
	}
	buf.WriteString(`],"stats":{"timings":{"evalTotalTime":0,"resultSortTime":0,"queryPreparationTime":0,"innerEvalTime":0,"execQueueTime":0,"execTotalTime":0},"samples":{"totalQueryableSamples":0,"peakSamples":0}}}}`)
	w.Header().Set("Content-Type", "application/json")
	w.WriteHeader(200)
	_, _ = w.Write(buf.Bytes())
}

// promOrder: indexes of the series in the order Prometheus returns them (labels.Compare on the label sets)
func (p *Presence) promOrder() []int {
	idx := make([]int, len(p.Series))
	for i := range idx {
		idx[i] = i
	}
	sort.SliceStable(idx, func(a, b int) bool {
		return labels.Compare(labels.FromMap(p.Series[idx[a]].Labels), labels.FromMap(p.Series[idx[b]].Labels)) < 0
	})
	return idx
}

func (p *Presence) ServeQuery(w http.ResponseWriter, r *http.Request) {
	t := time.Now().UnixMilli()
	if s := r.Form.Get("time"); s != "" {
		if v, err := ParseTimeMs(s); err == nil {
			t = v
		}
	}
	type sample struct {
		Metric map[string]string `json:"metric"`
		Value  [2]any            `json:"value"`
	}
	res := []sample{}
	for i := range p.Series {
		if p.present(&p.Series[i], t) {
			res = append(res, sample{Metric: p.Series[i].Labels, Value: [2]any{float64(t) / 1000, "1"}})
		}
	}
	WriteJSON(w, map[string]any{"status": "success", "data": map[string]any{"resultType": "vector", "result": res}})
}

// SortedByStart returns the requests ordered by (start, end, arrival).
func SortedByStart(rs []*RangeReq) []*RangeReq {
	out := append([]*RangeReq(nil), rs...)
	sort.SliceStable(out, func(i, j int) bool {
		if out[i].StartMs != out[j].StartMs {
			return out[i].StartMs < out[j].StartMs
		}
		return out[i].EndMs < out[j].EndMs
	})
	return out
}
