package promfake

// Engine mode: /api/v1/query and /api/v1/query_range are evaluated by the REAL PromQL engine
// (promql.NewEngine) over a hand-written in-memory storage.Queryable. promqltest / teststorage do not
// build offline, so the storage below is the smallest thing the engine accepts: a list of series, each a
// label set plus float samples sorted by time.

import (
	"context"
	"math"
	"net/http"
	"sort"
	"strconv"
	"sync"
	"time"

	"github.com/prometheus/prometheus/model/histogram"
	"github.com/prometheus/prometheus/model/labels"
	"github.com/prometheus/prometheus/promql"
	"github.com/prometheus/prometheus/promql/parser"
	"github.com/prometheus/prometheus/storage"
	"github.com/prometheus/prometheus/tsdb/chunkenc"
	"github.com/prometheus/prometheus/tsdb/chunks"
	"github.com/prometheus/prometheus/util/annotations"
)

type fsample struct {
	t int64
	f float64
}

func (s fsample) T() int64                      { return s.t }
func (s fsample) F() float64                    { return s.f }
func (s fsample) H() *histogram.Histogram       { return nil }
func (s fsample) FH() *histogram.FloatHistogram { return nil }
func (s fsample) Type() chunkenc.ValueType      { return chunkenc.ValFloat }
func (s fsample) Copy() chunks.Sample           { return s }

// DBSeries is one stored series.
type DBSeries struct {
	Labels  labels.Labels
	samples []chunks.Sample
}

// DB is an in-memory storage.Queryable.
type DB struct {
	series []*DBSeries
}

func NewDB() *DB { return &DB{} }

// Add stores a series with one sample (value 1) at every `every` between from and to (inclusive, ms).
func (db *DB) Add(lset map[string]string, intervalsMs [][2]int64, everyMs int64) {
	s := &DBSeries{Labels: labels.FromMap(lset)}
	for _, iv := range intervalsMs {
		for t := iv[0]; t <= iv[1]; t += everyMs {
			s.samples = append(s.samples, fsample{t: t, f: 1})
		}
	}
	sort.Slice(s.samples, func(i, j int) bool { return s.samples[i].T() < s.samples[j].T() })
	db.series = append(db.series, s)
}

// NumSamples returns how many stored samples of series matching all matchers lie in [fromMs, toMs].
func (db *DB) NumSamples(fromMs, toMs int64, ms ...*labels.Matcher) int {
	n := 0
	for _, s := range db.series {
		if !matches(s.Labels, ms) {
			continue
		}
		for _, x := range s.samples {
			if x.T() >= fromMs && x.T() <= toMs {
				n++
			}
		}
	}
	return n
}

func matches(ls labels.Labels, ms []*labels.Matcher) bool {
	for _, m := range ms {
		if !m.Matches(ls.Get(m.Name)) {
			return false
		}
	}
	return true
}

func (db *DB) Querier(mint, maxt int64) (storage.Querier, error) {
	return &dbQuerier{db: db, mint: mint, maxt: maxt}, nil
}

type dbQuerier struct {
	db         *DB
	mint, maxt int64
}

func (q *dbQuerier) Select(_ context.Context, sortSeries bool, _ *storage.SelectHints, ms ...*labels.Matcher) storage.SeriesSet {
	var out []storage.Series
	for _, s := range q.db.series {
		if !matches(s.Labels, ms) {
			continue
		}
		// samples inside [mint, maxt] only, as a TSDB querier would return
		lo := sort.Search(len(s.samples), func(i int) bool { return s.samples[i].T() >= q.mint })
		hi := sort.Search(len(s.samples), func(i int) bool { return s.samples[i].T() > q.maxt })
		out = append(out, storage.NewListSeries(s.Labels, s.samples[lo:hi]))
	}
	if sortSeries {
		sort.Slice(out, func(i, j int) bool { return labels.Compare(out[i].Labels(), out[j].Labels()) < 0 })
	}
	return &sliceSeriesSet{series: out, i: -1}
}

func (q *dbQuerier) LabelValues(_ context.Context, name string, _ *storage.LabelHints, ms ...*labels.Matcher) ([]string, annotations.Annotations, error) {
	set := map[string]bool{}
	for _, s := range q.db.series {
		if matches(s.Labels, ms) {
			if v := s.Labels.Get(name); v != "" {
				set[v] = true
			}
		}
	}
	out := make([]string, 0, len(set))
	for v := range set {
		out = append(out, v)
	}
	sort.Strings(out)
	return out, nil, nil
}

func (q *dbQuerier) LabelNames(_ context.Context, _ *storage.LabelHints, ms ...*labels.Matcher) ([]string, annotations.Annotations, error) {
	set := map[string]bool{}
	for _, s := range q.db.series {
		if matches(s.Labels, ms) {
			s.Labels.Range(func(l labels.Label) { set[l.Name] = true })
		}
	}
	out := make([]string, 0, len(set))
	for v := range set {
		out = append(out, v)
	}
	sort.Strings(out)
	return out, nil, nil
}

func (q *dbQuerier) Close() error { return nil }

type sliceSeriesSet struct {
	series []storage.Series
	i      int
}

func (s *sliceSeriesSet) Next() bool                        { s.i++; return s.i < len(s.series) }
func (s *sliceSeriesSet) At() storage.Series                { return s.series[s.i] }
func (s *sliceSeriesSet) Err() error                        { return nil }
func (s *sliceSeriesSet) Warnings() annotations.Annotations { return nil }

var (
	engineOnce sync.Once
	engine     *promql.Engine
)

// SharedEngine returns the process-wide real PromQL engine (default 5 m lookback delta).
func SharedEngine() *promql.Engine {
	engineOnce.Do(func() {
		engine = promql.NewEngine(promql.EngineOpts{
			MaxSamples:           50_000_000,
			Timeout:              time.Minute,
			LookbackDelta:        5 * time.Minute,
			EnableAtModifier:     true,
			EnableNegativeOffset: true,
		})
	})
	return engine
}

// EngineBackend serves a DB through the real engine. Now (if set) fixes the evaluation time of instant
// queries that carry no `time` parameter; otherwise the wall clock is used, as Prometheus does.
type EngineBackend struct {
	DB  *DB
	Now func() time.Time
	// Hold: an instant query with exactly this text is not answered until ReleaseHold is called (a slow query that
	// keeps a worker of the client busy).
	Hold   string
	holdCh chan struct{}

	mu  sync.Mutex
	log []EngineReq
}

// EngineReq is one logged request.
type EngineReq struct {
	Endpoint string // "query" | "query_range"
	Query    string
	StartMs  int64
	EndMs    int64
	StepMs   int64
}

func NewEngineBackend(db *DB) *EngineBackend {
	return &EngineBackend{DB: db, holdCh: make(chan struct{})}
}

// ReleaseHold lets the held query (and any later one with the same text) be answered.
func (b *EngineBackend) ReleaseHold() {
	b.mu.Lock()
	select {
	case <-b.holdCh:
	default:
		close(b.holdCh)
	}
	b.mu.Unlock()
}

func (b *EngineBackend) Requests() []EngineReq {
	b.mu.Lock()
	defer b.mu.Unlock()
	return append([]EngineReq(nil), b.log...)
}

func (b *EngineBackend) now() time.Time {
	if b.Now != nil {
		return b.Now()
	}
	return time.Now()
}

// Instant evaluates an instant query directly (ground truth for tests).
func (b *EngineBackend) Instant(ctx context.Context, q string, ts time.Time) (promql.Vector, error) {
	qry, err := SharedEngine().NewInstantQuery(ctx, b.DB, nil, q, ts)
	if err != nil {
		return nil, err
	}
	defer qry.Close()
	res := qry.Exec(ctx)
	if res.Err != nil {
		return nil, res.Err
	}
	switch v := res.Value.(type) {
	case promql.Vector:
		out := make(promql.Vector, len(v))
		copy(out, v)
		return out, nil
	case promql.Scalar:
		return promql.Vector{{T: v.T, F: v.V}}, nil
	}
	return nil, nil
}

// Range evaluates a range query directly and returns, per result series, the timestamps (ms) with a value.
func (b *EngineBackend) Range(ctx context.Context, q string, start, end time.Time, step time.Duration) (map[string][]int64, error) {
	qry, err := SharedEngine().NewRangeQuery(ctx, b.DB, nil, q, start, end, step)
	if err != nil {
		return nil, err
	}
	defer qry.Close()
	res := qry.Exec(ctx)
	if res.Err != nil {
		return nil, res.Err
	}
	out := map[string][]int64{}
	if m, ok := res.Value.(promql.Matrix); ok {
		for _, s := range m {
			for _, p := range s.Floats {
				out[s.Metric.String()] = append(out[s.Metric.String()], p.T)
			}
		}
	}
	return out, nil
}

func fmtFloat(f float64) string {
	switch {
	case math.IsNaN(f):
		return "NaN"
	case math.IsInf(f, 1):
		return "+Inf"
	case math.IsInf(f, -1):
		return "-Inf"
	}
	return strconv.FormatFloat(f, 'f', -1, 64)
}

func metricMap(ls labels.Labels) map[string]string {
	m := map[string]string{}
	ls.Range(func(l labels.Label) { m[l.Name] = l.Value })
	return m
}

var emptyStats = map[string]any{
	"timings": map[string]float64{"evalTotalTime": 0, "resultSortTime": 0, "queryPreparationTime": 0, "innerEvalTime": 0, "execQueueTime": 0, "execTotalTime": 0},
	"samples": map[string]int{"totalQueryableSamples": 0, "peakSamples": 0},
}

func (b *EngineBackend) ServeQuery(w http.ResponseWriter, r *http.Request) {
	q := r.Form.Get("query")
	ts := b.now()
	if s := r.Form.Get("time"); s != "" {
		if ms, err := ParseTimeMs(s); err == nil {
			ts = time.UnixMilli(ms)
		}
	}
	b.mu.Lock()
	b.log = append(b.log, EngineReq{Endpoint: "query", Query: q, StartMs: ts.UnixMilli(), EndMs: ts.UnixMilli()})
	b.mu.Unlock()
	if _, err := parser.ParseExpr(q); err != nil {
		WriteError(w, 400, "bad_data", err.Error())
		return
	}
	if b.Hold != "" && q == b.Hold {
		select {
		case <-b.holdCh:
		case <-r.Context().Done():
			return
		}
		if r.Form.Get("time") == "" {
			ts = b.now()
		}
	}
	qry, err := SharedEngine().NewInstantQuery(r.Context(), b.DB, nil, q, ts)
	if err != nil {
		WriteError(w, 400, "bad_data", err.Error())
		return
	}
	defer qry.Close()
	res := qry.Exec(r.Context())
	if res.Err != nil {
		WriteError(w, 422, "execution", res.Err.Error())
		return
	}
	switch v := res.Value.(type) {
	case promql.Vector:
		out := make([]map[string]any, 0, len(v))
		for _, s := range v {
			out = append(out, map[string]any{"metric": metricMap(s.Metric), "value": [2]any{float64(s.T) / 1000, fmtFloat(s.F)}})
		}
		WriteJSON(w, map[string]any{"status": "success", "data": map[string]any{"resultType": "vector", "result": out, "stats": emptyStats}})
	case promql.Scalar:
		WriteJSON(w, map[string]any{"status": "success", "data": map[string]any{"resultType": "scalar",
			"result": [2]any{float64(v.T) / 1000, fmtFloat(v.V)}, "stats": emptyStats}})
	case promql.Matrix:
		WriteJSON(w, map[string]any{"status": "success", "data": map[string]any{"resultType": "matrix", "result": matrixJSON(v), "stats": emptyStats}})
	default:
		WriteError(w, 422, "execution", "unsupported result type")
	}
}

func matrixJSON(m promql.Matrix) []map[string]any {
	out := make([]map[string]any, 0, len(m))
	for _, s := range m {
		vals := make([][2]any, 0, len(s.Floats))
		for _, p := range s.Floats {
			vals = append(vals, [2]any{float64(p.T) / 1000, fmtFloat(p.F)})
		}
		out = append(out, map[string]any{"metric": metricMap(s.Metric), "values": vals})
	}
	return out
}

func (b *EngineBackend) ServeQueryRange(w http.ResponseWriter, r *http.Request) {
	q := r.Form.Get("query")
	start, err1 := ParseTimeMs(r.Form.Get("start"))
	end, err2 := ParseTimeMs(r.Form.Get("end"))
	step, err3 := ParseTimeMs(r.Form.Get("step"))
	b.mu.Lock()
	b.log = append(b.log, EngineReq{Endpoint: "query_range", Query: q, StartMs: start, EndMs: end, StepMs: step})
	b.mu.Unlock()
	if err1 != nil || err2 != nil || err3 != nil || step <= 0 {
		WriteError(w, 400, "bad_data", "invalid parameter")
		return
	}
	if end < start {
		WriteError(w, 400, "bad_data", "end timestamp must not be before start time")
		return
	}
	qry, err := SharedEngine().NewRangeQuery(r.Context(), b.DB, nil, q, time.UnixMilli(start), time.UnixMilli(end), time.Duration(step)*time.Millisecond)
	if err != nil {
		WriteError(w, 400, "bad_data", err.Error())
		return
	}
	defer qry.Close()
	res := qry.Exec(r.Context())
	if res.Err != nil {
		WriteError(w, 422, "execution", res.Err.Error())
		return
	}
	m, _ := res.Value.(promql.Matrix)
	WriteJSON(w, map[string]any{"status": "success", "data": map[string]any{"resultType": "matrix", "result": matrixJSON(m), "stats": emptyStats}})
}
