// Package promfake is a Prometheus-compatible fake HTTP API for the verification harness.
//
// One Server hosts any number of tenants, each reachable under its own URL prefix
// (http://127.0.0.1:port/t/<name>) so that a long-lived promapi client can be pointed at a slot whose
// backend is swapped between cases. Two kinds of backend exist:
//
//   - presence mode (presence.go): query_range / query are answered from a presence model (per series a
//     set of present time cells); every query_range request is logged and can be held until the test
//     releases it, which lets a test prescribe the arrival order of slice responses;
//   - engine mode (engine.go): the real PromQL engine (promql.NewEngine) over a hand-written in-memory
//     storage.Queryable.
//
// /api/v1/status/config, /status/flags and /metadata are served with static, overridable answers.
package promfake

import (
	"encoding/json"
	"net"
	"net/http"
	"strconv"
	"strings"
	"sync"
	"time"
)

// Backend answers the data endpoints of one tenant.
type Backend interface {
	// ServeQuery handles /api/v1/query; form is already parsed.
	ServeQuery(w http.ResponseWriter, r *http.Request)
	// ServeQueryRange handles /api/v1/query_range.
	ServeQueryRange(w http.ResponseWriter, r *http.Request)
}

// Static holds the answers of the non-data endpoints (nil fields = defaults).
type Static struct {
	ConfigYAML string            // body of data.yaml for /api/v1/status/config
	Flags      map[string]string // /api/v1/status/flags
	Metadata   map[string][]map[string]string
}

type Tenant struct {
	mu      sync.RWMutex
	backend Backend
	static  Static
}

func (t *Tenant) Set(b Backend) {
	t.mu.Lock()
	t.backend = b
	t.mu.Unlock()
}

func (t *Tenant) SetStatic(s Static) {
	t.mu.Lock()
	t.static = s
	t.mu.Unlock()
}

type Server struct {
	mu      sync.RWMutex
	tenants map[string]*Tenant
	ln      net.Listener
	srv     *http.Server
	base    string
}

func NewServer() (*Server, error) {
	ln, err := listenRetry()
	if err != nil {
		return nil, err
	}
	s := &Server{tenants: map[string]*Tenant{}, ln: ln, base: "http://" + ln.Addr().String()}
	s.srv = &http.Server{Handler: http.HandlerFunc(s.route)}
	go func() { _ = s.srv.Serve(ln) }()
	return s, nil
}

func (s *Server) Close() { _ = s.srv.Close() }

// Tenant returns (creating it if needed) the tenant slot with that name.
func (s *Server) Tenant(name string) *Tenant {
	s.mu.Lock()
	defer s.mu.Unlock()
	t, ok := s.tenants[name]
	if !ok {
		t = &Tenant{}
		s.tenants[name] = t
	}
	return t
}

// URL is the Prometheus base URI of a tenant.
func (s *Server) URL(name string) string { return s.base + "/t/" + name }

const DefaultConfigYAML = "global:\n  scrape_interval: 1m\n  scrape_timeout: 10s\n  evaluation_interval: 1m\n"

func (s *Server) route(w http.ResponseWriter, r *http.Request) {
	p := strings.TrimPrefix(r.URL.Path, "/t/")
	if p == r.URL.Path {
		http.NotFound(w, r)
		return
	}
	i := strings.IndexByte(p, '/')
	if i < 0 {
		http.NotFound(w, r)
		return
	}
	name, rest := p[:i], p[i:]
	s.mu.RLock()
	t := s.tenants[name]
	s.mu.RUnlock()
	if t == nil {
		http.NotFound(w, r)
		return
	}
	t.mu.RLock()
	b, st := t.backend, t.static
	t.mu.RUnlock()
	switch rest {
	case "/api/v1/query":
		if b == nil {
			WriteError(w, 503, "unavailable", "no backend")
			return
		}
		_ = r.ParseForm()
		b.ServeQuery(w, r)
	case "/api/v1/query_range":
		if b == nil {
			WriteError(w, 503, "unavailable", "no backend")
			return
		}
		_ = r.ParseForm()
		b.ServeQueryRange(w, r)
	case "/api/v1/status/config":
		y := st.ConfigYAML
		if y == "" {
			y = DefaultConfigYAML
		}
		WriteJSON(w, map[string]any{"status": "success", "data": map[string]string{"yaml": y}})
	case "/api/v1/status/flags":
		f := st.Flags
		if f == nil {
			f = map[string]string{"storage.tsdb.retention.time": "15d"}
		}
		WriteJSON(w, map[string]any{"status": "success", "data": f})
	case "/api/v1/metadata":
		m := st.Metadata
		if m == nil {
			m = map[string][]map[string]string{}
		}
		WriteJSON(w, map[string]any{"status": "success", "data": m})
	default:
		http.NotFound(w, r)
	}
}

func WriteJSON(w http.ResponseWriter, v any) {
	b, err := json.Marshal(v)
	if err != nil {
		WriteError(w, 500, "internal", err.Error())
		return
	}
	w.Header().Set("Content-Type", "application/json")
	w.Header().Set("Content-Length", strconv.Itoa(len(b)))
	w.WriteHeader(200)
	_, _ = w.Write(b)
}

func WriteError(w http.ResponseWriter, code int, typ, msg string) {
	b, _ := json.Marshal(map[string]string{"status": "error", "errorType": typ, "error": msg})
	w.Header().Set("Content-Type", "application/json")
	w.WriteHeader(code)
	_, _ = w.Write(b)
}

// ParseTimeMs parses a Prometheus API timestamp (float seconds) into milliseconds.
func ParseTimeMs(s string) (int64, error) {
	f, err := strconv.ParseFloat(s, 64)
	if err != nil {
		return 0, err
	}
	if f < 0 {
		return int64(f*1000 - 0.5), nil
	}
	return int64(f*1000 + 0.5), nil
}

// FormatTimeMs renders milliseconds as the JSON number Prometheus uses (seconds, up to 3 decimals).
func FormatTimeMs(ms int64) string {
	if ms%1000 == 0 {
		return strconv.FormatInt(ms/1000, 10)
	}
	return strconv.FormatFloat(float64(ms)/1000, 'f', 3, 64)
}

// listenRetry binds an ephemeral port; when the ephemeral range is momentarily exhausted (many short
// connections in TIME_WAIT while several checks run at once) it waits and retries instead of failing.
func listenRetry() (ln net.Listener, err error) {
	for i := 0; i < 120; i++ {
		ln, err = net.Listen("tcp", "127.0.0.1:0")
		if err == nil || !strings.Contains(err.Error(), "address already in use") {
			return ln, err
		}
		time.Sleep(500 * time.Millisecond)
	}
	return ln, err
}
