//go:build !h3b

package promhook

import (
	"time"

	"github.com/cloudflare/pint/internal/promapi"
)

func HasState() bool { return false }

func SetCacheClock(*promapi.FailoverGroup, func() time.Time) {}

func QueueState(*promapi.FailoverGroup) (queued, capacity int) { return 0, 0 }
