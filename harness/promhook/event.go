package promhook

import "runtime"

// Event mirrors promapi.VerifEvent.
type Event struct {
	Ev  string
	Key string
	Job string
	Seq uint64
	G   uint64
}

// Goid returns the id of the calling goroutine (same method as the hook uses).
func Goid() uint64 {
	var buf [64]byte
	b := buf[:runtime.Stack(buf[:], false)]
	var n uint64
	for _, c := range b[len("goroutine "):] {
		if c < '0' || c > '9' {
			break
		}
		n = n*10 + uint64(c-'0')
	}
	return n
}
