//go:build !h3

package promhook

import "sync/atomic"

var seq atomic.Uint64

func Available() bool { return false }

func SetTracer(func(Event)) {}

func NextSeq() uint64 { return seq.Add(1) }
