//go:build h3

// Package promhook adapts hook H3 (internal/promapi/hooks_verif.go, build tag verif) for the harness.
// It is compiled in two flavours so that the shared vh binary still builds on a tree that does not
// carry the hook yet: with the extra build tag h3 it forwards to promapi, without it the tracer is
// unavailable and only the sequence counter works.
package promhook

import "github.com/cloudflare/pint/internal/promapi"

func Available() bool { return true }

func SetTracer(f func(Event)) {
	if f == nil {
		promapi.SetVerifTracer(nil)
		return
	}
	promapi.SetVerifTracer(func(e promapi.VerifEvent) {
		f(Event{Ev: e.Ev, Key: e.Key, Job: e.Job, Seq: e.Seq, G: e.G})
	})
}

func NextSeq() uint64 { return promapi.VerifNextSeq() }
