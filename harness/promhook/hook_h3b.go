//go:build h3b

package promhook

import (
	"time"

	"github.com/cloudflare/pint/internal/promapi"
)

// Hook h3b (internal/promapi/hooks_verif_state.go): fake cache clock and queue state.

func HasState() bool { return true }

func SetCacheClock(fg *promapi.FailoverGroup, now func() time.Time) { fg.VerifSetCacheClock(now) }

func QueueState(fg *promapi.FailoverGroup) (queued, capacity int) { return fg.VerifQueueState() }
