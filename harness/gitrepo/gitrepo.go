// Package gitrepo builds scratch git repositories from abstract histories (GitHistory family, C03/C20)
// and runs the real pint binary in them. It is a dumb executor: it renders abstract rule files to YAML,
// makes one real commit per abstract commit with a deterministic identity and date, and projects what
// git and pint printed to plain records. No oracle logic lives here.
package gitrepo

import (
	"bytes"
	"encoding/json"
	"errors"
	"fmt"
	"os"
	"os/exec"
	"path/filepath"
	"regexp"
	"sort"
	"strconv"
	"strings"
	"time"
)

// ------------------------------------------------------------------ abstract documents

// Rule is one abstract rule (spec/GitHistory.tla: Rule).
type Rule struct {
	Kind string `json:"kind"` // "rec" | "alr"
	Name string `json:"name"`
	Body string `json:"body"` // token list joined by "+": v1 v2 | m:<metric> | A:<alertname> | S:<alertname>
	Lab  string `json:"lab"`  // l1 | l2
	Cmt  string `json:"cmt"`  // none | c1 | c2   (rule level control comment)
	Pad  int    `json:"pad"`  // 0 nothing, 1 blank line, 2 plain comment line   in front of the rule
	Ext  string `json:"ext"`  // x0 nothing, x1 "for: 5m", x2 an annotations map   (alerting rules only)
}

// File is one abstract rule file.
type File struct {
	Present bool   `json:"present"`
	Fdis    bool   `json:"fdis"`   // "# pint file/disable ..." on the first line
	Broken  bool   `json:"broken"` // last line is not YAML: the file does not parse
	Rules   []Rule `json:"rules"`
}

var cmtText = map[string]string{
	"c1": "# pint disable promql/fragile",
	"c2": "# pint disable promql/rate",
}

// label variants: l3 is a strict superset of l1 (removing b from l3 gives l1)
var labText = map[string]string{
	"l1": "      a: \"1\"\n",
	"l2": "      a: \"2\"\n",
	"l3": "      a: \"1\"\n      b: \"1\"\n",
}

// Span is the line range of one rendered rule.
type Span struct {
	First int `json:"first"`
	Last  int `json:"last"`
}

// Expr renders a body token list as PromQL.
func Expr(body string) string {
	var parts []string
	for _, t := range strings.Split(body, "+") {
		switch {
		case t == "v1":
			parts = append(parts, "vector(1)")
		case t == "v2":
			parts = append(parts, "vector(2)")
		case strings.HasPrefix(t, "m:"):
			parts = append(parts, t[2:])
		case strings.HasPrefix(t, "A:"):
			parts = append(parts, `ALERTS{alertname="`+t[2:]+`"}`)
		case strings.HasPrefix(t, "S:"):
			parts = append(parts, `ALERTS_FOR_STATE{alertname="`+t[2:]+`"}`)
		default:
			parts = append(parts, t)
		}
	}
	return strings.Join(parts, " or ")
}

// Render writes the abstract file as a strict-mode rule file. The layout is what the line arithmetic of
// the specification (FirstLine / LastLine) describes: optional file/disable line, three header lines,
// then per rule [pad line] [control comment line] and four rule lines.
func Render(f File) string {
	s, _ := RenderSpans(f)
	return s
}

// RenderSpans also returns where each rule was put (first line = the "- record:/- alert:" line, last line =
// its last label line), counted while writing.
func RenderSpans(f File) (string, []Span) {
	var b strings.Builder
	spans := []Span{}
	line := 0
	w := func(s string) {
		b.WriteString(s)
		line += strings.Count(s, "\n")
	}
	if f.Fdis {
		w("# pint file/disable promql/fragile\n")
	}
	w("groups:\n- name: g\n")
	if len(f.Rules) == 0 && !f.Broken {
		w("  rules: []\n")
		return b.String(), spans
	}
	w("  rules:\n")
	for _, r := range f.Rules {
		switch r.Pad {
		case 1:
			w("\n")
		case 2:
			w("  # just a note\n")
		}
		if c, ok := cmtText[r.Cmt]; ok {
			w("  " + c + "\n")
		}
		key := "record"
		if r.Kind == "alr" {
			key = "alert"
		}
		first := line + 1
		w(fmt.Sprintf("  - %s: %s\n    expr: %s\n", key, r.Name, Expr(r.Body)))
		if r.Ext == "x1" {
			w("    for: 5m\n")
		}
		w("    labels:\n")
		w(labText[r.Lab])
		if r.Ext == "x2" {
			w("    annotations:\n      summary: s\n")
		}
		spans = append(spans, Span{first, line})
	}
	if f.Broken {
		w("  - record: [\n")
	}
	return b.String(), spans
}

// ------------------------------------------------------------------ repository

type Repo struct {
	Dir  string
	env  []string
	tick int
}

var epoch = time.Date(2024, 1, 1, 0, 0, 0, 0, time.UTC)

// New creates an empty repository on branch main below parent ("" = default temp dir).
func New(parent string) (*Repo, error) {
	dir, err := os.MkdirTemp(parent, "githist-")
	if err != nil {
		return nil, err
	}
	r := &Repo{Dir: dir}
	r.env = []string{
		"PATH=" + os.Getenv("PATH"),
		"HOME=" + dir,
		"LC_ALL=C",
		"GIT_CONFIG_GLOBAL=/dev/null",
		"GIT_CONFIG_NOSYSTEM=1",
		"GIT_AUTHOR_NAME=verif", "GIT_AUTHOR_EMAIL=verif@example.com",
		"GIT_COMMITTER_NAME=verif", "GIT_COMMITTER_EMAIL=verif@example.com",
	}
	if _, err := r.Git("init", "-q", "-b", "main", "."); err != nil {
		r.Close()
		return nil, err
	}
	return r, nil
}

func (r *Repo) Close() { os.RemoveAll(r.Dir) }

func (r *Repo) cmdEnv() []string {
	d := epoch.Add(time.Duration(r.tick) * time.Minute).Format(time.RFC3339)
	return append(append([]string{}, r.env...), "GIT_AUTHOR_DATE="+d, "GIT_COMMITTER_DATE="+d)
}

func (r *Repo) Git(args ...string) (string, error) {
	cmd := exec.Command("git", args...)
	cmd.Dir = r.Dir
	cmd.Env = r.cmdEnv()
	var out, eb bytes.Buffer
	cmd.Stdout, cmd.Stderr = &out, &eb
	if err := cmd.Run(); err != nil {
		return out.String(), fmt.Errorf("git %s: %w: %s", strings.Join(args, " "), err, eb.String())
	}
	return out.String(), nil
}

func (r *Repo) Write(path, content string) error {
	p := filepath.Join(r.Dir, path)
	if err := os.MkdirAll(filepath.Dir(p), 0o755); err != nil {
		return err
	}
	return os.WriteFile(p, []byte(content), 0o644)
}

// Commit stages everything and commits; every commit gets its own minute.
func (r *Repo) Commit(msg string) error {
	r.tick++
	if _, err := r.Git("add", "-A", "."); err != nil {
		return err
	}
	_, err := r.Git("commit", "-q", "--allow-empty", "-m", msg)
	return err
}

// NS is one name-status line of `git log --name-status`.
type NS struct {
	Status string `json:"status"` // first letter: A M D R ...
	Score  string `json:"score"`  // e.g. "100" for R100, "" otherwise
	Src    string `json:"src"`
	Dst    string `json:"dst"`
}

// BranchLog runs exactly the command git.Changes runs and returns the name-status lines per commit, oldest first.
func (r *Repo) BranchLog(base string) ([][]NS, error) {
	out, err := r.Git("log", "--reverse", "--no-merges", "--first-parent", "--format=%H", "--name-status", base+"..HEAD")
	if err != nil {
		return nil, err
	}
	var res [][]NS
	for _, line := range strings.Split(out, "\n") {
		parts := strings.Split(line, "\t")
		if len(parts) == 1 {
			if parts[0] != "" {
				res = append(res, nil)
			}
			continue
		}
		if len(res) == 0 {
			return nil, errors.New("name-status line before any commit: " + line)
		}
		ns := NS{Status: parts[0][:1], Score: parts[0][1:], Src: parts[1], Dst: parts[len(parts)-1]}
		res[len(res)-1] = append(res[len(res)-1], ns)
	}
	return res, nil
}

// ------------------------------------------------------------------ pint

// Marker configuration: exactly one rule/report marker per change state; the severity identifies the state in
// the JSON report (the JSON reporter does not carry the diagnostic message).
const MarkerConfig = `parser {
  include = [".+\\.yml"]
  exclude = ["^drafts/.*"]
}
checks {
  enabled = ["rule/report", "rule/dependency"]
}
rule {
  match {
    state = ["unmodified"]
  }
  report {
    comment  = "unmodified"
    severity = "info"
  }
}
rule {
  match {
    state = ["added"]
  }
  report {
    comment  = "added"
    severity = "warning"
  }
}
rule {
  match {
    state = ["modified"]
  }
  report {
    comment  = "modified"
    severity = "bug"
  }
}
rule {
  match {
    state = ["renamed"]
  }
  report {
    comment  = "renamed"
    severity = "fatal"
  }
}
`

var sevState = map[string]string{"Information": "noop", "Warning": "added", "Bug": "modified", "Fatal": "moved"}

type jsonReport struct {
	Path     string `json:"path"`
	Reporter string `json:"reporter"`
	Problem  string `json:"problem"`
	Details  string `json:"details"`
	Severity string `json:"severity"`
	Lines    []int  `json:"lines"`
}

// Marker is the observed change state of the rule at path:first-last.
type Marker struct {
	Path  string `json:"path"`
	First int    `json:"first"`
	Last  int    `json:"last"`
	State string `json:"state"`
}

// Dep is one line of the dependants list of a rule/dependency problem.
type Dep struct {
	Name string `json:"name"`
	Path string `json:"path"`
	Line int    `json:"line"`
}

// DepReport is one rule/dependency problem.
type DepReport struct {
	Path  string `json:"path"`
	First int    `json:"first"`
	Last  int    `json:"last"`
	Deps  []Dep  `json:"deps"`
}

// ParseReport is one yaml/parse problem.
type ParseReport struct {
	Path string `json:"path"`
	Line int    `json:"line"`
}

type CIResult struct {
	Parse   []ParseReport
	RC      int
	Err     string // non-empty when pint produced no JSON report
	Markers []Marker
	Deps    []DepReport
	Other   []string // reports of any other reporter (none expected)
	Stderr  string
}

var depLine = regexp.MustCompile("^- `([^`]*)` at `([^`:]*):([0-9]+)`$")

// RunCI runs `pint --offline ci --base-branch=<base> --json=...` in the repository with the marker config.
func (r *Repo) RunCI(pint, cfgPath, base string, timeout time.Duration) CIResult {
	var res CIResult
	jpath := r.Dir + ".json"
	defer os.Remove(jpath)
	cmd := exec.Command(pint, "--config", cfgPath, "--offline", "-l", "error", "--no-color", "ci", "--base-branch="+base, "--json="+jpath)
	cmd.Dir = r.Dir
	cmd.Env = r.cmdEnv()
	var eb bytes.Buffer
	cmd.Stderr = &eb
	done := make(chan error, 1)
	if err := cmd.Start(); err != nil {
		res.Err = err.Error()
		return res
	}
	go func() { done <- cmd.Wait() }()
	select {
	case err := <-done:
		if err != nil {
			var ee *exec.ExitError
			if errors.As(err, &ee) {
				res.RC = ee.ExitCode()
			} else {
				res.Err = err.Error()
				return res
			}
		}
	case <-time.After(timeout):
		cmd.Process.Kill()
		<-done
		res.Err = "timeout"
		return res
	}
	res.Stderr = eb.String()
	raw, err := os.ReadFile(jpath)
	if err != nil {
		res.Err = "no json report: " + lastLine(res.Stderr)
		return res
	}
	var reps []jsonReport
	if err := json.Unmarshal(raw, &reps); err != nil {
		res.Err = "bad json report: " + err.Error()
		return res
	}
	for _, jr := range reps {
		first, last := 0, 0
		if len(jr.Lines) > 0 {
			first, last = jr.Lines[0], jr.Lines[len(jr.Lines)-1]
		}
		switch jr.Reporter {
		case "rule/report":
			res.Markers = append(res.Markers, Marker{jr.Path, first, last, sevState[jr.Severity]})
		case "rule/dependency":
			d := DepReport{Path: jr.Path, First: first, Last: last, Deps: []Dep{}}
			for _, l := range strings.Split(jr.Details, "\n") {
				if m := depLine.FindStringSubmatch(l); m != nil {
					n, _ := strconv.Atoi(m[3])
					d.Deps = append(d.Deps, Dep{m[1], m[2], n})
				}
			}
			res.Deps = append(res.Deps, d)
		case "yaml/parse":
			res.Parse = append(res.Parse, ParseReport{jr.Path, first})
		default:
			res.Other = append(res.Other, jr.Reporter+" "+jr.Path+":"+strconv.Itoa(first)+" "+jr.Problem)
		}
	}
	sort.SliceStable(res.Markers, func(i, j int) bool {
		a, b := res.Markers[i], res.Markers[j]
		if a.Path != b.Path {
			return a.Path < b.Path
		}
		return a.First < b.First
	})
	return res
}

func lastLine(s string) string {
	s = strings.TrimSpace(s)
	if i := strings.LastIndexByte(s, '\n'); i >= 0 {
		s = s[i+1:]
	}
	if len(s) > 300 {
		s = s[:300]
	}
	return s
}
