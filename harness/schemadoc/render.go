// Package schemadoc concretises the abstract rule documents of spec/StrictSchema.tla into YAML bytes.
// The mapping is a fixed table: one concrete text per (field, status). It holds no judgement; the
// meaning of every status (what pint / Prometheus do with it) lives in the TLA+ specification only.
package schemadoc

import (
	"fmt"
	"strings"
)

// Doc mirrors the record emitted by StrictSchema!EmitCase.
type Doc struct {
	Names string            `json:"names"` // utf8 | legacy
	Kind  string            `json:"kind"`  // recording | alerting
	Order string            `json:"order"` // rulesLast | rulesFirst
	Schema string           `json:"schema"` // prometheus | thanos
	G2    string            `json:"g2"`    // absent | before | after : a second, valid group
	R2    string            `json:"r2"`    // absent | before | after : a second, valid rule in the focus group
	Top   string            `json:"top"`
	Gitem string            `json:"gitem"`
	Ritem string            `json:"ritem"`
	G     map[string]string `json:"g"`
	R     map[string]string `json:"r"`
}

// TopHasGroups: top-level shapes that carry the focus group list.
func TopHasGroups(top string) bool {
	switch top {
	case "ok", "unknownKey", "unknownKeyFirst", "nonStrKey", "dupGroupsEmpty", "dupGroupsOther", "multiDoc", "multiDocBad":
		return true
	}
	return false
}

var groupOrderRulesLast = []string{"name", "interval", "query_offset", "limit", "labels", "partial_response_strategy", "unknown", "rules"}
var groupOrderRulesFirst = []string{"rules", "name", "interval", "query_offset", "limit", "labels", "partial_response_strategy", "unknown"}
var ruleOrder = []string{"record", "alert", "expr", "merge", "for", "keep_firing_for", "labels", "annotations", "unknown"}

var okScalar = map[string]string{
	"g.name": "g1", "g.interval": "1m", "g.query_offset": "30s", "g.limit": "5",
	"g.partial_response_strategy": "warn", "g.unknown": "bar",
	"r.record": "job:up:sum", "r.alert": "InstanceDown", "r.for": "5m", "r.keep_firing_for": "10m", "r.unknown": "bar",
}

func okExpr(kind string) string {
	if kind == "recording" {
		return "sum by (job) (up)"
	}
	return "up == 0"
}

// scalarLines renders `key: value` line(s) for a scalar-valued field.
func scalarLines(ind, key, scope, status, kind string) []string {
	ok := okScalar[scope+"."+key]
	if key == "expr" {
		ok = okExpr(kind)
	}
	k := key
	if key == "unknown" {
		k = "foo"
	}
	one := func(v string) []string {
		if v == "" {
			return []string{ind + k + ":"}
		}
		return []string{ind + k + ": " + v}
	}
	switch status {
	case "absent":
		return nil
	case "ok", "present", "dupOther":
		return one(ok)
	case "empty":
		return one(`""`)
	case "int":
		return one("1")
	case "bool":
		return one("true")
	case "seq":
		return one("[a]")
	case "map":
		return one("{a: b}")
	case "null":
		return one("")
	case "nullWord":
		return one("null")
	case "dup":
		return append(one(ok), one(ok)...)
	case "badDur":
		return one("1x")
	case "huge":
		if key == "limit" {
			return one("99999999999999999999")
		}
		return one("99999999999y")
	case "int0":
		return one("0")
	case "hex":
		return one("0x10")
	case "exp":
		return one("1e3")
	case "u64":
		return one("9223372036854775808")
	case "badValue":
		return one("maybe")
	case "utf8":
		if key == "alert" {
			return one(`"Über alert"`)
		}
		return one(`"job:üp"`)
	case "dot":
		return one("job.up")
	case "zero":
		if key == "limit" {
			return one("0")
		}
		return one("0s")
	case "str":
		return one("abc")
	case "quotedInt":
		return one(`"10"`)
	case "float":
		if key == "limit" {
			return one("1.5")
		}
		return one("1.5m")
	case "neg":
		if key == "limit" {
			return one("-1")
		}
		return one("-1m")
	case "braces":
		return one(`"foo{bar}"`)
	case "space":
		return one(`"foo bar"`)
	case "badPromql":
		return one("sum(")
	case "blank":
		return one(`" "`)
	}
	panic(fmt.Sprintf("schemadoc: unknown scalar status %q for %s.%s", status, scope, key))
}

// mapLines renders a labels/annotations mapping.
func mapLines(ind, key, status string) []string {
	in := ind + "  "
	item := "team"
	okv := "a"
	if key == "annotations" {
		item, okv = "summary", "down"
	}
	head := ind + key + ":"
	block := func(lines ...string) []string { return append([]string{head}, lines...) }
	switch status {
	case "absent":
		return nil
	case "ok":
		return block(in + item + ": " + okv)
	case "emptyMap":
		return []string{head + " {}"}
	case "null":
		return []string{head}
	case "int":
		return []string{head + " 1"}
	case "str":
		return []string{head + " abc"}
	case "seq":
		return []string{head + " [a]"}
	case "bool":
		return []string{head + " true"}
	case "dup":
		return append(block(in+item+": "+okv), block(in+item+": "+okv)...)
	case "valInt":
		return block(in + item + ": 1")
	case "valBool":
		return block(in + item + ": true")
	case "valNull":
		return block(in + item + ":")
	case "valSeq":
		return block(in + item + ": [a]")
	case "valMap":
		return block(in + item + ": {a: b}")
	case "dupInner":
		return block(in+item+": "+okv, in+item+": b")
	case "badNameEmpty":
		return block(in + `"": ` + okv)
	case "badNameDash":
		return block(in + "a-b: " + okv)
	case "nameLabel":
		return block(in + "__name__: " + okv)
	case "badTemplate":
		return block(in + item + `: "{{ $nope }}"`)
	case "unclosedAction":
		return block(in + item + `: "{{ $labels.instance"`)
	case "unclosedComment":
		return block(in + item + `: "{{/* TODO"`)
	case "unclosedBrace":
		return block(in + item + `: "{{ $value }"`)
	case "execTemplate":
		return block(in + item + `: "{{ .Nope }}"`)
	case "valueTemplate":
		return block(in + item + `: "{{ $value }}"`)
	case "tierBadTemplate":
		return block(in+item+": "+okv, in+`tier: "{{ $nope }}"`)
	case "tierValueTemplate":
		return block(in+item+": "+okv, in+`tier: "{{ $value }}"`)
	case "valBadUtf8":
		return block(in + item + ": \"a\xffb\"")
	case "tplUnknownFunc":
		return block(in + item + `: "{{ nofunc 1 }}"`)
	case "tplQueryBad":
		return block(in + item + `: '{{ query "sum(" }}'`)
	case "tplPathPrefix":
		return block(in + item + `: "{{ pathPrefix }}"`)
	case "tplExternal":
		return block(in + item + `: "{{ $externalLabels.foo }} {{ $externalURL }}"`)
	case "tplQuery":
		return block(in + item + `: '{{ query "up" | first | value }}'`)
	case "tplArgs":
		return block(in + item + `: "{{ with args 1 2 }}{{ .arg0 }}{{ end }}"`)
	}
	panic(fmt.Sprintf("schemadoc: unknown map status %q for %s", status, key))
}

func ruleLines(d Doc) []string {
	// the list item marker is put in front of the first rendered line
	const ind = "    "
	var body []string
	switch d.Ritem {
	case "map":
		for _, k := range ruleOrder {
			st := d.R[k]
			if k == "labels" || k == "annotations" {
				body = append(body, mapLines(ind, k, st)...)
			} else if k == "merge" {
				switch st {
				case "inlineEmpty":
					body = append(body, ind+"<<: {}")
				case "inlineFor":
					body = append(body, ind+"<<: {for: 1x}")
				}
			} else {
				body = append(body, scalarLines(ind, k, "r", st, d.Kind)...)
			}
		}
		if len(body) == 0 {
			return []string{"  - {}"}
		}
		body[0] = "  - " + strings.TrimPrefix(body[0], ind)
		return body
	case "null":
		return []string{"  -"}
	case "emptyMap":
		return []string{"  - {}"}
	case "str":
		return []string{"  - abc"}
	case "int":
		return []string{"  - 1"}
	case "seq":
		return []string{"  - - a"}
	}
	panic("schemadoc: unknown ritem " + d.Ritem)
}

// siblingRule is a second, valid rule of the same kind as the focus rule.
func siblingRule(d Doc) []string {
	if d.Kind == "recording" {
		return []string{"  - record: job:up:count", "    expr: count by (job) (up)"}
	}
	return []string{"  - alert: OtherDown", "    expr: up == 1", "    for: 5m"}
}

func withSibling(d Doc) []string {
	switch d.R2 {
	case "before":
		return append(siblingRule(d), ruleLines(d)...)
	case "after":
		return append(ruleLines(d), siblingRule(d)...)
	}
	return ruleLines(d)
}

func rulesLines(d Doc) []string {
	const ind = "  "
	head := ind + "rules:"
	switch d.G["rules"] {
	case "absent":
		return nil
	case "ok":
		return append([]string{head}, withSibling(d)...)
	case "null":
		return []string{head}
	case "emptyList":
		return []string{head + " []"}
	case "int":
		return []string{head + " 1"}
	case "str":
		return []string{head + " abc"}
	case "map":
		return []string{head + " {a: b}"}
	case "bool":
		return []string{head + " true"}
	case "dup":
		return append(append([]string{head}, withSibling(d)...), head+" []")
	}
	panic("schemadoc: unknown rules status " + d.G["rules"])
}

var siblingGroup = []string{"- name: other", "  rules:", "  - record: other:up:sum", "    expr: sum(up)"}

func groupLines(d Doc) []string {
	switch d.G2 {
	case "before":
		return append(append([]string{}, siblingGroup...), focusGroupLines(d)...)
	case "after":
		return append(focusGroupLines(d), siblingGroup...)
	}
	return focusGroupLines(d)
}

func focusGroupLines(d Doc) []string {
	const ind = "  "
	switch d.Gitem {
	case "map":
	case "null":
		return []string{"-"}
	case "emptyMap":
		return []string{"- {}"}
	case "str":
		return []string{"- abc"}
	case "int":
		return []string{"- 1"}
	case "seq":
		return []string{"- - a"}
	default:
		panic("schemadoc: unknown gitem " + d.Gitem)
	}
	order := groupOrderRulesLast
	if d.Order == "rulesFirst" {
		order = groupOrderRulesFirst
	}
	var body []string
	for _, k := range order {
		st := d.G[k]
		switch k {
		case "rules":
			body = append(body, rulesLines(d)...)
		case "labels":
			body = append(body, mapLines(ind, k, st)...)
		default:
			body = append(body, scalarLines(ind, k, "g", st, d.Kind)...)
		}
	}
	if len(body) == 0 {
		return []string{"- {}"}
	}
	body[0] = "- " + strings.TrimPrefix(body[0], ind)
	if d.G["name"] == "dupOther" {
		body = append(body, "- name: g1", "  rules: []")
	}
	return body
}

// Render gives the concrete file for an abstract document.
func Render(d Doc) []byte {
	var out []string
	groups := func() []string { return append([]string{"groups:"}, groupLines(d)...) }
	switch d.Top {
	case "ok":
		out = groups()
	case "emptyFile":
		return []byte{}
	case "nullDoc":
		out = []string{"~"}
	case "commentOnly":
		out = []string{"# nothing here"}
	case "seq":
		out = []string{"- a", "- b"}
	case "scalarStr":
		out = []string{"foo"}
	case "scalarInt":
		out = []string{"1"}
	case "unknownKey":
		out = append(groups(), "foo: bar")
	case "unknownKeyFirst":
		out = append([]string{"foo: bar"}, groups()...)
	case "nonStrKey":
		out = append(groups(), "1: bar")
	case "dupGroupsEmpty":
		out = append(groups(), "groups: []")
	case "dupGroupsOther":
		out = append(groups(), "groups:", "- name: other", "  rules: []")
	case "multiDoc":
		out = append(append([]string{"---"}, groups()...), "---", "groups: []")
	case "multiDocBad":
		out = append(append([]string{"---"}, groups()...), "---", "- a")
	case "groupsNull":
		out = []string{"groups:"}
	case "groupsEmpty":
		out = []string{"groups: []"}
	case "groupsInt":
		out = []string{"groups: 1"}
	case "groupsStr":
		out = []string{"groups: abc"}
	case "groupsBool":
		out = []string{"groups: true"}
	case "groupsMap":
		out = []string{"groups:", "  a: b"}
	default:
		panic("schemadoc: unknown top " + d.Top)
	}
	return []byte(strings.Join(out, "\n") + "\n")
}
