// Package promsrv is a deliberately small fake of the Prometheus HTTP API for the client-side
// properties (C14, C15): it logs every request with sequence numbers, counts requests in flight,
// and injects latency and faults per request. It answers with canned bodies that carry the serial
// number of the request, so that callers can be compared on what they received.
// (The PromQL-evaluating fake used by C13/C16 lives in harness/promfake.)
package promsrv

import (
	"fmt"
	"net"
	"net/http"
	"net/url"
	"sort"
	"strings"
	"sync"
	"syscall"
	"time"
)

// Fault modes (C15 vocabulary; C14 uses a subset).
const (
	Healthy   = "healthy"
	Refused   = "refused"   // nothing listens on the port
	Timeout   = "timeout"   // handler outlives the client's deadline
	Plain500  = "http500"   // 500, text/plain body
	JSON503   = "json5xx"   // 503, JSON errorType=server_error
	BadData   = "bad_data"  // 400, JSON errorType=bad_data
	Exec422   = "exec422"   // 422, JSON errorType=execution
	NotFound  = "http404"   // 404, text/plain body
	Truncated = "truncated" // 200, body cut in the middle of the JSON document, connection closed
	Exec500   = "exec500"   // 500, JSON errorType=execution
	Unavail   = "json503un" // 503, JSON errorType=unavailable (a real Prometheus whose TSDB is not ready)
	Dropped   = "dropped"   // the client is known to have gone away: logged as aborted, nothing is written
	CutJSON   = "cutjson"   // 200, HTTP-complete, but the JSON document ends at a token boundary inside "data"
)

// Action is what the server does with one request.
type Action struct {
	Fault   string
	Latency time.Duration
}

// Entry is one logged request.
type Entry struct {
	Key      string            `json:"key"`
	Path     string            `json:"path"`
	Outcome  string            `json:"outcome"` // ok | fault:<mode> | aborted | "" (still running)
	ID       int               `json:"id"`
	Serial   int               `json:"serial"` // n-th request for this key (1-based)
	SeqStart uint64            `json:"seq_start"`
	SeqEnd   uint64            `json:"seq_end"`
	Inflight int               `json:"inflight"` // requests in flight right after this one started (incl. itself)
	Form     map[string]string `json:"form"`     // first value of every form parameter
	AtNs     int64             `json:"at_ns"`    // wall clock at arrival
}

type Server struct {
	// Plan decides per request; nil = healthy, no latency. Called without the server's lock held.
	Plan func(e Entry, form url.Values) Action
	// Body renders the success body; nil = DefaultBody.
	Body func(e Entry, form url.Values) string
	// Seq hands out sequence numbers shared with the client-side tracer.
	Seq func() uint64
	// MaxHold bounds how long a Timeout handler sleeps when the client never goes away.
	MaxHold time.Duration

	ln       net.Listener
	fd       int // bound, never listening socket of a "refused" server
	srv      *http.Server
	addr     string
	log      []*Entry
	perKey   map[string]int
	inflight int
	maxInfl  int
	mu       sync.Mutex
}

// Start listens on 127.0.0.1:0. With listen=false a port is bound but never listened on, so that
// connecting to URL() is refused while the port cannot be handed to anybody else in the meantime.
func Start(listen bool) (*Server, error) {
	if !listen {
		fd, err := syscall.Socket(syscall.AF_INET, syscall.SOCK_STREAM, 0)
		if err != nil {
			return nil, err
		}
		for i := 0; ; i++ {
			err = syscall.Bind(fd, &syscall.SockaddrInet4{Port: 0, Addr: [4]byte{127, 0, 0, 1}})
			if err == nil || err != syscall.EADDRINUSE || i >= 120 {
				break
			}
			time.Sleep(500 * time.Millisecond) // ephemeral range momentarily exhausted
		}
		if err != nil {
			syscall.Close(fd)
			return nil, err
		}
		sa, err := syscall.Getsockname(fd)
		if err != nil {
			syscall.Close(fd)
			return nil, err
		}
		port := sa.(*syscall.SockaddrInet4).Port
		return &Server{fd: fd, addr: fmt.Sprintf("127.0.0.1:%d", port), perKey: map[string]int{}, MaxHold: 5 * time.Second}, nil
	}
	ln, err := listenRetry()
	if err != nil {
		return nil, err
	}
	s := &Server{fd: -1, ln: ln, addr: ln.Addr().String(), perKey: map[string]int{}, MaxHold: 5 * time.Second}
	s.srv = &http.Server{Handler: http.HandlerFunc(s.handle)}
	go s.srv.Serve(ln)
	return s, nil
}

func (s *Server) URL() string { return "http://" + s.addr }

func (s *Server) Close() {
	if s.srv != nil {
		s.srv.Close()
	}
	if s.ln == nil && s.fd >= 0 {
		syscall.Close(s.fd)
		s.fd = -1
	}
}

// Key identifies "the same question" at the HTTP level: path plus the form without the
// parameters that do not select data (timeout, stats).
func Key(path string, form url.Values) string {
	names := make([]string, 0, len(form))
	for k := range form {
		if k == "timeout" || k == "stats" {
			continue
		}
		names = append(names, k)
	}
	sort.Strings(names)
	var sb strings.Builder
	sb.WriteString(path)
	for _, k := range names {
		sb.WriteString("|" + k + "=" + strings.Join(form[k], ","))
	}
	return sb.String()
}

func (s *Server) seq() uint64 {
	if s.Seq != nil {
		return s.Seq()
	}
	return 0
}

func (s *Server) handle(w http.ResponseWriter, r *http.Request) {
	_ = r.ParseForm()
	form := r.Form
	key := Key(r.URL.Path, form)

	s.mu.Lock()
	s.perKey[key]++
	s.inflight++
	if s.inflight > s.maxInfl {
		s.maxInfl = s.inflight
	}
	e := &Entry{ID: len(s.log) + 1, Key: key, Path: r.URL.Path, Serial: s.perKey[key], Inflight: s.inflight, Form: map[string]string{}}
	for k, v := range form {
		if len(v) > 0 {
			e.Form[k] = v[0]
		}
	}
	e.SeqStart = s.seq() // taken under the lock: log order = sequence order
	e.AtNs = time.Now().UnixNano()
	s.log = append(s.log, e)
	snapshot := *e
	s.mu.Unlock()

	act := Action{Fault: Healthy}
	if s.Plan != nil {
		act = s.Plan(snapshot, form)
	}
	if act.Fault == "" {
		act.Fault = Healthy
	}

	// finish records the end of the request BEFORE the response leaves the server, so that the
	// logged interval lies inside the interval the client observes.
	finish := func(outcome string) {
		s.mu.Lock()
		e.Outcome = outcome
		e.SeqEnd = s.seq()
		s.inflight--
		s.mu.Unlock()
	}

	if act.Latency > 0 {
		t := time.NewTimer(act.Latency)
		select {
		case <-t.C:
		case <-r.Context().Done():
			t.Stop()
			finish("aborted")
			return
		}
	}
	if act.Fault == Dropped {
		finish("aborted")
		return
	}
	if act.Fault == Timeout {
		t := time.NewTimer(s.MaxHold)
		select {
		case <-t.C:
		case <-r.Context().Done():
			t.Stop()
		}
		finish("fault:" + Timeout)
		return
	}
	if r.Context().Err() != nil {
		finish("aborted")
		return
	}

	jsonErr := func(code int, typ, msg string) {
		finish("fault:" + act.Fault)
		w.Header().Set("Content-Type", "application/json")
		w.WriteHeader(code)
		fmt.Fprintf(w, `{"status":"error","errorType":%q,"error":%q}`, typ, msg)
	}
	switch act.Fault {
	case Healthy:
		body := DefaultBody
		if s.Body != nil {
			body = s.Body
		}
		b := body(snapshot, form)
		finish("ok")
		w.Header().Set("Content-Type", "application/json")
		w.WriteHeader(200)
		_, _ = w.Write([]byte(b))
	case Plain500:
		finish("fault:" + act.Fault)
		w.Header().Set("Content-Type", "text/plain")
		w.WriteHeader(500)
		_, _ = w.Write([]byte("internal failure\n"))
	case NotFound:
		finish("fault:" + act.Fault)
		w.Header().Set("Content-Type", "text/plain")
		w.WriteHeader(404)
		_, _ = w.Write([]byte("404 page not found\n"))
	case JSON503:
		jsonErr(503, "server_error", "storage is not ready")
	case BadData:
		jsonErr(400, "bad_data", "invalid parameter \"query\"")
	case Exec422:
		jsonErr(422, "execution", "found duplicate series for the match group: many-to-many matching not allowed")
	case Exec500:
		jsonErr(500, "execution", "query processing failed on the server")
	case Unavail:
		jsonErr(503, "unavailable", "TSDB not ready")
	case CutJSON:
		body := DefaultBody
		if s.Body != nil {
			body = s.Body
		}
		b := body(snapshot, form)
		cut := b[:len(b)/2]
		if i := strings.Index(b, `"result":[`); i >= 0 {
			cut = b[:i+len(`"result":[`)]
		} else if i := strings.Index(b, `"data":{`); i >= 0 {
			cut = b[:i+len(`"data":{`)]
		}
		finish("fault:" + act.Fault)
		w.Header().Set("Content-Type", "application/json")
		w.Header().Set("Content-Length", fmt.Sprint(len(cut)))
		w.WriteHeader(200)
		_, _ = w.Write([]byte(cut))
	case Truncated:
		body := DefaultBody
		if s.Body != nil {
			body = s.Body
		}
		b := body(snapshot, form)
		cut := b[:len(b)*2/3]
		finish("fault:" + act.Fault)
		hj, ok := w.(http.Hijacker)
		if !ok {
			return
		}
		conn, buf, err := hj.Hijack()
		if err != nil {
			return
		}
		fmt.Fprintf(buf, "HTTP/1.1 200 OK\r\nContent-Type: application/json\r\nContent-Length: %d\r\nConnection: close\r\n\r\n%s", len(b), cut)
		buf.Flush()
		conn.Close()
	default:
		finish("fault:unknown")
		w.WriteHeader(500)
	}
}

// Log returns a copy of the request log (in arrival order).
func (s *Server) Log() []Entry {
	s.mu.Lock()
	defer s.mu.Unlock()
	out := make([]Entry, len(s.log))
	for i, e := range s.log {
		out[i] = *e
	}
	return out
}

// Count is the number of requests received so far.
func (s *Server) Count() int {
	s.mu.Lock()
	defer s.mu.Unlock()
	return len(s.log)
}

// MaxInflight is the highest number of simultaneously running handlers seen so far.
func (s *Server) MaxInflight() int {
	s.mu.Lock()
	defer s.mu.Unlock()
	return s.maxInfl
}

// DefaultBody answers every endpoint pint uses with a well-formed success document that carries
// the request's identity: id (global) and serial (per key).
func DefaultBody(e Entry, form url.Values) string {
	tag := fmt.Sprintf("%d", e.ID)
	switch {
	case strings.HasSuffix(e.Path, "/api/v1/query"):
		return fmt.Sprintf(`{"status":"success","data":{"resultType":"vector","result":[{"metric":{"__name__":"answer","req":%q},"value":[1700000000,"%d"]}]}}`, tag, e.ID)
	case strings.HasSuffix(e.Path, "/api/v1/query_range"):
		var start, end, step float64
		fmt.Sscanf(form.Get("start"), "%g", &start)
		fmt.Sscanf(form.Get("end"), "%g", &end)
		fmt.Sscanf(form.Get("step"), "%g", &step)
		if step <= 0 {
			step = 60
		}
		var sb strings.Builder
		n := 0
		for t := start; t <= end && n < 20000; t += step {
			if n > 0 {
				sb.WriteByte(',')
			}
			fmt.Fprintf(&sb, `[%d,"1"]`, int64(t))
			n++
		}
		// Several series per answer, and series sets that differ from slice to slice: even 2h windows carry five
		// series (keys a b d e f), odd ones a single series (key c), so that the sorted merged answer interleaves
		// the series of different slices and no two slices have a series in common. "key" sorts before "req".
		keys := []string{"c"}
		if int64(start)/7200%2 == 0 {
			keys = []string{"a", "b", "d", "e", "f"}
		}
		var series []string
		for _, k := range keys {
			series = append(series, fmt.Sprintf(`{"metric":{"key":%q,"req":%q},"values":[%s]}`, k, tag, sb.String()))
		}
		return fmt.Sprintf(`{"status":"success","data":{"resultType":"matrix","result":[%s]}}`, strings.Join(series, ","))
	case strings.HasSuffix(e.Path, "/api/v1/status/config"):
		return fmt.Sprintf(`{"status":"success","data":{"yaml":"global:\n  scrape_interval: 30s\n  external_labels:\n    req: \"%s\"\n"}}`, tag)
	case strings.HasSuffix(e.Path, "/api/v1/status/flags"):
		return fmt.Sprintf(`{"status":"success","data":{"storage.tsdb.retention.time":"15d","req":%q}}`, tag)
	case strings.HasSuffix(e.Path, "/api/v1/metadata"):
		m := form.Get("metric")
		return fmt.Sprintf(`{"status":"success","data":{%q:[{"type":"gauge","help":%q,"unit":""}]}}`, m, "req "+tag)
	}
	return `{"status":"success","data":{}}`
}

// listenRetry binds an ephemeral port; when the ephemeral range is momentarily exhausted (many short
// connections in TIME_WAIT while several checks run at once) it waits and retries instead of failing.
func listenRetry() (ln net.Listener, err error) {
	for i := 0; i < 120; i++ {
		ln, err = net.Listen("tcp", "127.0.0.1:0")
		if err == nil || !strings.Contains(err.Error(), "address already in use") {
			return ln, err
		}
		time.Sleep(500 * time.Millisecond)
	}
	return ln, err
}
