package pipe

// Job-level access to the real lint pipeline (used by the C11 harness): the (entry, check) jobs are built
// exactly like cmd/pint/scan.go builds them, but the caller decides in which order they are executed.

import (
	"context"
	"fmt"
	"path/filepath"
	"regexp"
	"runtime/debug"

	"github.com/prometheus/client_golang/prometheus"
	"github.com/prometheus/common/model"

	"github.com/cloudflare/pint/internal/checks"
	"github.com/cloudflare/pint/internal/config"
	"github.com/cloudflare/pint/internal/discovery"
	"github.com/cloudflare/pint/internal/git"
	"github.com/cloudflare/pint/internal/parser"
	"github.com/cloudflare/pint/internal/promapi"
	"github.com/cloudflare/pint/internal/reporter"
)

// Job is one scanJob of cmd/pint/scan.go.
type Job struct {
	Check checks.RuleChecker
	Entry discovery.Entry
	Idx   int // index of the entry
}

// Prepared is a parsed set of files with its dispatched jobs, ready to be executed in any order.
type Prepared struct {
	Ctx     context.Context
	Entries []discovery.Entry
	Jobs    []Job
	gen     *config.PrometheusGenerator
}

func (p *Prepared) Close() {
	if p.gen != nil {
		p.gen.Stop()
	}
}

// Prepare parses the files already written to dir (names in order) and dispatches the jobs like checkRules does.
func Prepare(dir string, order []string, o Opts) (p *Prepared, err error) {
	defer func() {
		if r := recover(); r != nil {
			err = fmt.Errorf("panic: %v\n%s", r, debug.Stack())
		}
	}()
	cfg, err := LoadConfig(dir, o.Config)
	if err != nil {
		return nil, err
	}
	cfg.SetDisabledChecks(o.Disabled)
	if o.Offline {
		cfg.DisableOnlineChecks()
	}
	var relaxed []*regexp.Regexp
	if !o.Strict {
		relaxed = []*regexp.Regexp{regexp.MustCompile(".*")}
	}
	relaxed = append(relaxed, config.MustCompileRegexes(cfg.Parser.Relaxed...)...)
	paths := make([]string, 0, len(order))
	for _, n := range order {
		paths = append(paths, filepath.Join(dir, n))
	}
	nameMu.Lock()
	finder := discovery.NewGlobFinder(paths,
		git.NewPathFilter(config.MustCompileRegexes(cfg.Parser.Include...), config.MustCompileRegexes(cfg.Parser.Exclude...), relaxed),
		parser.PrometheusSchema, model.LegacyValidation, cfg.Owners.CompileAllowed())
	entries, err := finder.Find()
	nameMu.Unlock()
	if err != nil {
		return nil, err
	}
	ctx := context.WithValue(context.Background(), config.CommandKey, command(o.Command))
	gen := config.NewPrometheusGenerator(cfg, prometheus.NewRegistry())
	if err := gen.GenerateStatic(); err != nil {
		gen.Stop()
		return nil, err
	}
	ctx = context.WithValue(ctx, promapi.AllPrometheusServers, gen.Servers())
	for _, s := range cfg.Check {
		settings, _ := s.Decode()
		ctx = context.WithValue(ctx, checks.SettingsKey(s.Name), settings)
	}
	p = &Prepared{Ctx: ctx, Entries: entries, gen: gen}
	for i, entry := range entries {
		switch {
		case entry.PathError != nil && entry.State == discovery.Removed:
		case entry.Rule.Error.Err != nil && entry.State == discovery.Removed:
		default:
			for _, chk := range cfg.GetChecksForEntry(ctx, gen, entry) {
				p.Jobs = append(p.Jobs, Job{Check: chk, Entry: entry, Idx: i})
			}
		}
	}
	return p, nil
}

// Run executes one job the way scanWorker does and returns the reports it would send.
func (p *Prepared) Run(j Job) (out []reporter.Report) {
	for _, problem := range j.Check.Check(p.Ctx, j.Entry, p.Entries) {
		out = append(out, reporter.Report{Path: j.Entry.Path, ModifiedLines: j.Entry.ModifiedLines, Rule: j.Entry.Rule, Problem: problem, Owner: j.Entry.Owner})
	}
	return out
}
