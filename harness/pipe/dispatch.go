package pipe

// Helpers for the Dispatch family (C09, C07): parse rule files once, then ask the real
// config.GetChecksForEntry which checks it dispatches for a given configuration / command / state and
// run only the per-block marker checks. Projection only.

import (
	"context"
	"fmt"
	"regexp"
	"runtime/debug"
	"strings"

	"github.com/prometheus/client_golang/prometheus"
	"github.com/prometheus/common/model"

	"github.com/cloudflare/pint/internal/config"
	"github.com/cloudflare/pint/internal/discovery"
	"github.com/cloudflare/pint/internal/git"
	"github.com/cloudflare/pint/internal/parser"
	"github.com/cloudflare/pint/internal/promapi"
)

// FindEntries parses the given (relative) paths in strict mode with default settings, the way
// `pint lint <paths>` does with an empty configuration. The process must already be in the directory
// the paths are relative to, so that Entry.Path.Name is what the binary would see.
func FindEntries(paths []string) (entries []discovery.Entry, err error) {
	defer func() {
		if r := recover(); r != nil {
			err = fmt.Errorf("panic: %v\n%s", r, debug.Stack())
		}
	}()
	nameMu.Lock()
	defer nameMu.Unlock()
	finder := discovery.NewGlobFinder(paths, git.NewPathFilter(nil, nil, []*regexp.Regexp{}), parser.PrometheusSchema,
		model.UTF8Validation, nil)
	return finder.Find()
}

// Marker is one observed marker problem.
type Marker struct {
	Entry int    // index into entries
	Check string // RuleChecker.String() of the marker check
}

// DispatchMarkers loads the configuration text with the real loader and, for every entry (with its state
// overridden when state != ""), asks GetChecksForEntry under the given command; every returned check whose
// String() is accepted by isMarker is run and, if it reports at least one problem, recorded.
func DispatchMarkers(dir, cfgText string, entries []discovery.Entry, cmd, state string, isMarker func(string) bool) (out []Marker, err error) {
	defer func() {
		if r := recover(); r != nil {
			err = fmt.Errorf("panic: %v\n%s", r, debug.Stack())
		}
	}()
	cfg, lerr := LoadConfig(dir, cfgText)
	if lerr != nil {
		return nil, fmt.Errorf("config: %w", lerr)
	}
	return DispatchMarkersCfg(cfg, entries, cmd, state, isMarker)
}

func DispatchMarkersCfg(cfg config.Config, entries []discovery.Entry, cmd, state string, isMarker func(string) bool) (out []Marker, err error) {
	defer func() {
		if r := recover(); r != nil {
			err = fmt.Errorf("panic: %v\n%s", r, debug.Stack())
		}
	}()
	ctx := context.WithValue(context.Background(), config.CommandKey, command(cmd))
	gen := config.NewPrometheusGenerator(cfg, prometheus.NewRegistry())
	defer gen.Stop()
	if gerr := gen.GenerateStatic(); gerr != nil {
		return nil, gerr
	}
	ctx = context.WithValue(ctx, promapi.AllPrometheusServers, gen.Servers())
	for i, entry := range entries {
		if state != "" {
			entry.State = ParseState(state)
		}
		for _, chk := range cfg.GetChecksForEntry(ctx, gen, entry) {
			s := chk.String()
			if !isMarker(s) {
				continue
			}
			if len(chk.Check(ctx, entry, entries)) > 0 {
				out = append(out, Marker{Entry: i, Check: s})
			}
		}
	}
	return out, nil
}

// ChecksFor returns the String() list GetChecksForEntry gives for every entry.
func ChecksFor(cfg config.Config, entries []discovery.Entry, cmd, state string) (out [][]string, err error) {
	defer func() {
		if r := recover(); r != nil {
			err = fmt.Errorf("panic: %v\n%s", r, debug.Stack())
		}
	}()
	ctx := context.WithValue(context.Background(), config.CommandKey, command(cmd))
	gen := config.NewPrometheusGenerator(cfg, prometheus.NewRegistry())
	defer gen.Stop()
	if gerr := gen.GenerateStatic(); gerr != nil {
		return nil, gerr
	}
	for _, entry := range entries {
		if state != "" {
			entry.State = ParseState(state)
		}
		l := []string{}
		for _, chk := range cfg.GetChecksForEntry(ctx, gen, entry) {
			l = append(l, chk.String())
		}
		out = append(out, l)
	}
	return out, nil
}

// IsLoadError tells a configuration rejected by validation from other failures.
func IsLoadError(err error) bool { return err != nil && strings.HasPrefix(err.Error(), "config: ") }
