// Package pipe drives pint's real lint pipeline in-process:
// discovery.GlobFinder -> config.GetChecksForEntry -> RuleChecker.Check -> reporter.Summary.
// It only projects real values to JSON-friendly structs; no judgement happens here.
package pipe

import (
	"context"
	"fmt"
	"os"
	"path/filepath"
	"regexp"
	"runtime/debug"
	"sync"

	"github.com/prometheus/client_golang/prometheus"
	"github.com/prometheus/common/model"

	"github.com/cloudflare/pint/internal/checks"
	"github.com/cloudflare/pint/internal/config"
	"github.com/cloudflare/pint/internal/diags"
	"github.com/cloudflare/pint/internal/discovery"
	"github.com/cloudflare/pint/internal/git"
	"github.com/cloudflare/pint/internal/parser"
	"github.com/cloudflare/pint/internal/promapi"
	"github.com/cloudflare/pint/internal/reporter"
)

type Opts struct {
	Strict   bool
	Thanos   bool
	UTF8     bool   // model.UTF8Validation instead of legacy
	Config   string // HCL text ("" = defaults)
	Command  string // lint | ci | watch
	Offline  bool
	Disabled []string
	Enabled  []string
	State    string // override entry state: "", noop, added, modified, moved, removed
}

type Pos struct {
	Line  int `json:"line"`
	First int `json:"first"`
	Last  int `json:"last"`
}

type Diag struct {
	Message string `json:"message"`
	Pos     []Pos  `json:"pos"`
	First   int    `json:"first"`
	Last    int    `json:"last"`
}

type Rep struct {
	Job       int    `json:"job"` // index of the (entry, check) job that produced it
	Entry     int    `json:"entry"`
	Check     string `json:"check"` // RuleChecker.String()
	Path      string `json:"path"`
	Reporter  string `json:"reporter"`
	Summary   string `json:"summary"`
	Details   string `json:"details"`
	Severity  string `json:"severity"`
	SevN      int    `json:"sevn"`
	First     int    `json:"first"`
	Last      int    `json:"last"`
	Anchor    int    `json:"anchor"`
	Diags     []Diag `json:"diags"`
	RuleName  string `json:"rule"`
	RuleFirst int    `json:"rule_first"`
	RuleLast  int    `json:"rule_last"`
}

type EntryInfo struct {
	Idx       int      `json:"idx"`
	Kind      string   `json:"kind"` // recording | alerting | invalid | patherror
	Name      string   `json:"name"`
	First     int      `json:"first"`
	Last      int      `json:"last"`
	Err       string   `json:"err"`
	ErrLine   int      `json:"err_line"`
	State     string   `json:"state"`
	Owner     string   `json:"owner"`
	Disabled  []string `json:"disabled"`
	Checks    []string `json:"checks"` // String() of the checks GetChecksForEntry returned
	Comments  []string `json:"comments"`
	TotalLine int      `json:"total_lines"`
}

type Result struct {
	Entries    []EntryInfo         `json:"entries"`
	Reports    []Rep               `json:"reports"`
	Panic      string              `json:"panic"`    // non-empty when any stage panicked
	FindErr    string              `json:"find_err"` // GlobFinder error
	CfgErr     string              `json:"cfg_err"`  // config.Load error
	Raw        []reporter.Report   `json:"-"`        // per job, in job order
	RawJobs    [][]reporter.Report `json:"-"`
	RawEntries []discovery.Entry   `json:"-"`
}

var nameMu sync.Mutex // parser.NewParser writes the global model.NameValidationScheme

func sevName(s checks.Severity) string { return s.String() }

func ProjectDiags(ds []diags.Diagnostic) []Diag {
	out := make([]Diag, 0, len(ds))
	for _, d := range ds {
		pd := Diag{Message: d.Message, First: d.FirstColumn, Last: d.LastColumn, Pos: []Pos{}}
		for _, p := range d.Pos {
			pd.Pos = append(pd.Pos, Pos{Line: p.Line, First: p.FirstColumn, Last: p.LastColumn})
		}
		out = append(out, pd)
	}
	return out
}

func entryKind(e discovery.Entry) string {
	switch {
	case e.PathError != nil:
		return "patherror"
	case e.Rule.Error.Err != nil:
		return "invalid"
	case e.Rule.AlertingRule != nil:
		return "alerting"
	case e.Rule.RecordingRule != nil:
		return "recording"
	}
	return "empty"
}

func ParseState(s string) discovery.ChangeType {
	switch s {
	case "noop":
		return discovery.Noop
	case "added":
		return discovery.Added
	case "modified":
		return discovery.Modified
	case "moved":
		return discovery.Moved
	case "removed":
		return discovery.Removed
	}
	return discovery.Unknown
}

func command(s string) config.ContextCommandVal {
	switch s {
	case "ci":
		return config.CICommand
	case "watch":
		return config.WatchCommand
	}
	return config.LintCommand
}

// LoadConfig writes HCL text to dir and loads it with the real loader ("" = defaults).
func LoadConfig(dir, text string) (config.Config, error) {
	path := filepath.Join(dir, "nonexistent.pint.hcl")
	failOnMissing := false
	if text != "" {
		path = filepath.Join(dir, ".pint.hcl")
		if err := os.WriteFile(path, []byte(text), 0o644); err != nil {
			return config.Config{}, err
		}
		failOnMissing = true
	}
	cfg, _, err := config.Load(path, failOnMissing)
	return cfg, err
}

// Lint runs the pipeline on the files {name: content} written into dir.
func Lint(dir string, files map[string][]byte, order []string, o Opts) (res Result) {
	defer func() {
		if r := recover(); r != nil {
			res.Panic = fmt.Sprintf("%v\n%s", r, debug.Stack())
		}
	}()
	for name, b := range files {
		p := filepath.Join(dir, name)
		os.MkdirAll(filepath.Dir(p), 0o755)
		if err := os.WriteFile(p, b, 0o644); err != nil {
			res.FindErr = err.Error()
			return res
		}
	}
	cfg, err := LoadConfig(dir, o.Config)
	if err != nil {
		res.CfgErr = err.Error()
		return res
	}
	cfg.SetDisabledChecks(o.Disabled)
	if len(o.Enabled) > 0 {
		cfg.Checks.Enabled = o.Enabled
	}
	if o.Offline {
		cfg.DisableOnlineChecks()
	}
	var relaxed []*regexp.Regexp
	if !o.Strict {
		relaxed = []*regexp.Regexp{regexp.MustCompile(".*")}
	}
	relaxed = append(relaxed, config.MustCompileRegexes(cfg.Parser.Relaxed...)...)
	schema := parser.PrometheusSchema
	if o.Thanos {
		schema = parser.ThanosSchema
	}
	names := model.LegacyValidation
	if o.UTF8 {
		names = model.UTF8Validation
	}
	paths := make([]string, 0, len(order))
	for _, n := range order {
		paths = append(paths, filepath.Join(dir, n))
	}
	finder := discovery.NewGlobFinder(paths,
		git.NewPathFilter(config.MustCompileRegexes(cfg.Parser.Include...), config.MustCompileRegexes(cfg.Parser.Exclude...), relaxed),
		schema, names, cfg.Owners.CompileAllowed())
	entries, err := func() ([]discovery.Entry, error) {
		nameMu.Lock()
		defer nameMu.Unlock() // a panic inside the parser must not leave the lock held (C02 records it as a Crash)
		return finder.Find()
	}()
	if err != nil {
		res.FindErr = err.Error()
		return res
	}
	if o.State != "" {
		for i := range entries {
			entries[i].State = ParseState(o.State)
		}
	}
	res.RawEntries = entries
	return RunChecks(cfg, entries, o, dir)
}

// RunChecks dispatches and runs checks the way cmd/pint/scan.go does, sequentially, one job at a time.
func RunChecks(cfg config.Config, entries []discovery.Entry, o Opts, dir string) (res Result) {
	defer func() {
		if r := recover(); r != nil {
			res.Panic = fmt.Sprintf("%v\n%s", r, debug.Stack())
		}
	}()
	res.RawEntries = entries
	ctx := context.WithValue(context.Background(), config.CommandKey, command(o.Command))
	gen := config.NewPrometheusGenerator(cfg, prometheus.NewRegistry())
	defer gen.Stop()
	if err := gen.GenerateStatic(); err != nil {
		res.CfgErr = "GenerateStatic: " + err.Error()
		return res
	}
	ctx = context.WithValue(ctx, promapi.AllPrometheusServers, gen.Servers())
	for _, s := range cfg.Check {
		settings, _ := s.Decode()
		ctx = context.WithValue(ctx, checks.SettingsKey(s.Name), settings)
	}
	job := 0
	for i, entry := range entries {
		ei := EntryInfo{Idx: i, Kind: entryKind(entry), Name: entry.Rule.Name(), First: entry.Rule.Lines.First,
			Last: entry.Rule.Lines.Last, State: entry.State.String(), Owner: entry.Owner,
			Disabled: append([]string{}, entry.DisabledChecks...), Checks: []string{}, Comments: []string{}}
		if entry.File != nil {
			ei.TotalLine = entry.File.TotalLines
		}
		if entry.PathError != nil {
			ei.Err = entry.PathError.Error()
		} else if entry.Rule.Error.Err != nil {
			ei.Err = entry.Rule.Error.Err.Error()
			ei.ErrLine = entry.Rule.Error.Line
		}
		for _, c := range entry.Rule.Comments {
			ei.Comments = append(ei.Comments, fmt.Sprintf("%d:%v", c.Type, c.Value))
		}
		switch {
		case entry.PathError != nil && entry.State == discovery.Removed:
		case entry.Rule.Error.Err != nil && entry.State == discovery.Removed:
		default:
			for _, chk := range cfg.GetChecksForEntry(ctx, gen, entry) {
				ei.Checks = append(ei.Checks, chk.String())
				problems := chk.Check(ctx, entry, entries)
				var jobReps []reporter.Report
				for _, p := range problems {
					rr := reporter.Report{Path: entry.Path, ModifiedLines: entry.ModifiedLines, Rule: entry.Rule, Problem: p, Owner: entry.Owner}
					jobReps = append(jobReps, rr)
					res.Raw = append(res.Raw, rr)
					res.Reports = append(res.Reports, Project(rr, job, i, chk.String(), dir))
				}
				res.RawJobs = append(res.RawJobs, jobReps)
				job++
			}
		}
		res.Entries = append(res.Entries, ei)
	}
	return res
}

func Project(rr reporter.Report, job, entry int, check, dir string) Rep {
	p := rr.Problem
	path := rr.Path.Name
	if dir != "" {
		if rel, err := filepath.Rel(dir, path); err == nil {
			path = rel
		}
	}
	return Rep{Job: job, Entry: entry, Check: check, Path: path, Reporter: p.Reporter, Summary: p.Summary, Details: p.Details,
		Severity: sevName(p.Severity), SevN: int(p.Severity), First: p.Lines.First, Last: p.Lines.Last, Anchor: int(p.Anchor),
		Diags: ProjectDiags(p.Diagnostics), RuleName: rr.Rule.Name(), RuleFirst: rr.Rule.Lines.First, RuleLast: rr.Rule.Lines.Last}
}
