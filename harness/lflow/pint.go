package lflow

import (
	"context"
	"fmt"
	"math"
	"regexp"
	"sort"
	"strings"

	"github.com/prometheus/common/model"
	promParser "github.com/prometheus/prometheus/promql/parser"

	"github.com/cloudflare/pint/internal/checks"
	"github.com/cloudflare/pint/internal/discovery"
	"github.com/cloudflare/pint/internal/parser"
	"github.com/cloudflare/pint/internal/parser/utils"
)

// Universe of label names every template references and every branch is asked about.
var Universe = []string{"a", "b", "c", "d", "__name__"}

func abstractName(l string) string {
	if l == "__name__" {
		return "n"
	}
	return l
}

func absNames(ls []string) []string {
	out := make([]string, 0, len(ls))
	for _, l := range ls {
		out = append(out, abstractName(l))
	}
	sort.Strings(out)
	return out
}

// Branch is the projection of one utils.Source.
type Branch struct {
	Inc    []string `json:"inc"`
	Exc    []string `json:"exc"`
	Gua    []string `json:"gua"`
	Fixed  bool     `json:"fixed"`
	Dead   bool     `json:"dead"`
	Always bool     `json:"always"`
	Known  bool     `json:"known"`
	Val    int      `json:"val"`
	Ret    string   `json:"ret"`
	Cond   bool     `json:"cond"`
	Joins  []Branch `json:"joins"`
	Unless []Branch `json:"unl"`
	Cannot []string `json:"cannot"` // labels of the universe the real CanHaveLabel denies
}

// ValUnknown stands for a ReturnedNumber outside the modelled domain (only compared when Known).
const ValUnknown = -999999

func projectSource(s utils.Source) Branch {
	b := Branch{
		Inc: absNames(s.IncludedLabels), Exc: absNames(s.ExcludedLabels), Gua: absNames(s.GuaranteedLabels),
		Fixed: s.FixedLabels, Dead: s.IsDead, Always: s.AlwaysReturns, Known: s.KnownReturn,
		Ret: string(s.Returns), Cond: s.IsConditional, Joins: []Branch{}, Unless: []Branch{}, Cannot: []string{},
	}
	f := s.ReturnedNumber
	switch {
	case math.IsNaN(f):
		b.Val = NaN
	case math.IsInf(f, 0) || f != math.Trunc(f) || math.Abs(f) > 1e9:
		b.Val = ValUnknown
	default:
		b.Val = int(f)
	}
	if b.Ret == "" {
		b.Ret = "none"
	}
	for _, l := range Universe {
		if !s.CanHaveLabel(l) {
			b.Cannot = append(b.Cannot, abstractName(l))
		}
	}
	sort.Strings(b.Cannot)
	for _, j := range s.Joins {
		b.Joins = append(b.Joins, projectSource(j.Src))
	}
	for _, j := range s.Unless {
		b.Unless = append(b.Unless, projectSource(j.Src))
	}
	return b
}

// Flag is one promql/impossible problem.
type Flag struct {
	Msg   string `json:"msg"`
	First int    `json:"first"`
	Last  int    `json:"last"`
	Side  string `json:"side"`  // right | left | whole | unknown
	Kind  string `json:"kind"`  // join | or | unless | static | unknown
	Label string `json:"label"` // abstract name of the label a join problem talks about ("" otherwise)
}

var flagLabelRe = regexp.MustCompile("because it doesn't have the `([^`]+)` label")

func classify(msg string) (side, kind string) {
	switch {
	case msg == "":
		// a dead flag inherited from an operand whose reason calculateStaticReturn blanked: no new claim
		return "none", "inherited"
	case strings.HasPrefix(msg, "The right hand side will never be matched"):
		return "right", "join"
	case strings.HasPrefix(msg, "The left hand side will never be matched"):
		return "left", "join"
	case strings.Contains(msg, "the left hand side always retur"):
		return "right", "or"
	case strings.Contains(msg, "because the `unless` query always returns something"):
		return "whole", "unless"
	case strings.Contains(msg, "always evaluates to"):
		return "whole", "static"
	}
	return "unknown", "unknown"
}

// Analysis is everything pint's real code says about one query.
type Analysis struct {
	Branches []Branch
	Tmpl     []string // labels reported by alerts/template as not present on the results
	Flags    []Flag   // promql/impossible problems
}

var tmplLabelRe = regexp.MustCompile("^Template is using `([^`]+)` label but the query results won't have this label")

// Pint wraps the real parser and the two real checks.
type Pint struct {
	p parser.Parser
}

func NewPint() *Pint {
	return &Pint{p: parser.NewParser(false, parser.PrometheusSchema, model.UTF8Validation)}
}

// Analyse runs utils.LabelsSource, checks.TemplateCheck and checks.ImpossibleCheck on a synthetic alert.
func (pt *Pint) Analyse(q string) (an Analysis, err error) {
	defer func() {
		if r := recover(); r != nil {
			err = fmt.Errorf("panic analysing %q: %v", q, r)
		}
	}()
	if strings.ContainsAny(q, "'\n") {
		return an, fmt.Errorf("query %q cannot be embedded", q)
	}
	content := "- alert: A\n  expr: '" + q + "'\n  annotations:\n" +
		"    s: '{{ $labels.a }} {{ $labels.b }} {{ $labels.c }} {{ $labels.d }} {{ $labels.__name__ }}'\n"
	file := pt.p.Parse(strings.NewReader(content))
	if file.Error.Err != nil {
		return an, fmt.Errorf("rule file rejected: %w", file.Error.Err)
	}
	if len(file.Groups) != 1 || len(file.Groups[0].Rules) != 1 {
		return an, fmt.Errorf("expected one rule for %q", q)
	}
	rule := file.Groups[0].Rules[0]
	if rule.AlertingRule == nil {
		return an, fmt.Errorf("rule for %q did not parse: %v", q, rule.Error.Err)
	}
	if rule.AlertingRule.Expr.SyntaxError != nil {
		return an, fmt.Errorf("query %q rejected by the PromQL parser: %w", q, rule.AlertingRule.Expr.SyntaxError)
	}
	entry := discovery.Entry{
		Path:          discovery.Path{Name: "fake.yml", SymlinkTarget: "fake.yml"},
		ModifiedLines: rule.Lines.Expand(),
		Rule:          rule,
		Group:         &file.Groups[0],
		File:          &file,
	}
	ex := rule.AlertingRule.Expr
	for _, s := range utils.LabelsSource(ex.Value.Value, ex.Query.Expr) {
		an.Branches = append(an.Branches, projectSource(s))
	}
	ctx := context.Background()
	seen := map[string]bool{}
	for _, p := range checks.NewTemplateCheck().Check(ctx, entry, nil) {
		if p.Summary != "template uses non-existent label" || len(p.Diagnostics) == 0 {
			continue
		}
		m := tmplLabelRe.FindStringSubmatch(p.Diagnostics[0].Message)
		if m == nil {
			return an, fmt.Errorf("unexpected alerts/template message %q", p.Diagnostics[0].Message)
		}
		if !seen[m[1]] {
			seen[m[1]] = true
			an.Tmpl = append(an.Tmpl, abstractName(m[1]))
		}
	}
	sort.Strings(an.Tmpl)
	if an.Tmpl == nil {
		an.Tmpl = []string{}
	}
	for _, p := range checks.NewImpossibleCheck().Check(ctx, entry, nil) {
		if p.Summary != "dead code in query" || len(p.Diagnostics) == 0 {
			continue
		}
		d := p.Diagnostics[0]
		side, kind := classify(d.Message)
		fl := Flag{Msg: d.Message, First: d.FirstColumn, Last: d.LastColumn, Side: side, Kind: kind}
		if m := flagLabelRe.FindStringSubmatch(d.Message); m != nil {
			fl.Label = abstractName(m[1])
		}
		an.Flags = append(an.Flags, fl)
	}
	return an, nil
}

// ParseOK checks the rendered text with the PromQL parser alone.
func ParseOK(q string) error {
	_, err := promParser.ParseExpr(q)
	return err
}
