// Package lflow is the EXEC side of the LabelFlow specification family (C04, C12):
// abstract expression -> PromQL text, in-memory storage + the real PromQL engine, and projections
// of pint's real label analysis. No judgement happens here.
package lflow

import (
	"fmt"
	"sort"
	"strings"
)

// Expr mirrors the expression records of spec/LabelFlow.tla (ToJson of a TLA+ record).
type Expr struct {
	K    string   `json:"k"`              // sel num time vec fn agg bin
	M    string   `json:"m,omitempty"`    // sel: metric
	Ma   string   `json:"ma,omitempty"`   // sel: matcher kind on label a
	Mb   string   `json:"mb,omitempty"`   // sel: matcher kind on label b
	Off  bool     `json:"off,omitempty"`  // sel: offset 1m
	V    int      `json:"v,omitempty"`    // num
	F    string   `json:"f,omitempty"`    // fn: abs neg scalar absent rate lot lotsub lrep ljoin
	Dst  string   `json:"dst,omitempty"`  // lrep/ljoin
	Src  string   `json:"src,omitempty"`  // lrep
	Re   string   `json:"re,omitempty"`   // lrep: regex
	Repl string   `json:"repl,omitempty"` // lrep: replacement
	Op   string   `json:"op,omitempty"`   // agg: sum count topk cv ; bin: + - * == != > < >= <= and or unless
	Mod  string   `json:"mod,omitempty"`  // agg: none by without
	Ls   []string `json:"ls,omitempty"`   // agg grouping / bin matching labels
	Dup  bool     `json:"dup,omitempty"`  // agg: the first grouping label is written twice
	Bool bool     `json:"bool,omitempty"` // bin: bool modifier
	Vm   string   `json:"vm,omitempty"`   // bin: none on ign
	Grp  string   `json:"grp,omitempty"`  // bin: none left right
	Inc  []string `json:"inc,omitempty"`  // bin: group_x(...) labels
	E    *Expr    `json:"e,omitempty"`
	L    *Expr    `json:"l,omitempty"`
	R    *Expr    `json:"r,omitempty"`
}

// LabelName maps the abstract label name to the concrete one ("n" is the metric name).
func LabelName(l string) string {
	if l == "n" {
		return "__name__"
	}
	return l
}

func matcher(label, kind string) string {
	switch kind {
	case "", "none":
		return ""
	case "eq":
		return label + `="x"`
	case "eqy":
		return label + `="y"`
	case "neq":
		return label + `!="x"`
	case "re":
		return label + `=~"x.*"`
	case "nre":
		return label + `!~"x.*"`
	case "empty":
		return label + `=""`
	case "nonempty":
		return label + `!=""`
	case "reany":
		return label + `=~".*"`
	case "reopt":
		return label + `=~"x|"`
	}
	panic("unknown matcher kind " + kind)
}

func names(ls []string) string {
	out := make([]string, 0, len(ls))
	for _, l := range ls {
		out = append(out, LabelName(l))
	}
	sort.Strings(out)
	return strings.Join(out, ",")
}

func dupFirst(list string, dup bool) string {
	if !dup || list == "" {
		return list
	}
	return strings.SplitN(list, ",", 2)[0] + "," + list
}

func (e *Expr) selector() string {
	var ms []string
	for _, m := range []string{matcher("a", e.Ma), matcher("b", e.Mb)} {
		if m != "" {
			ms = append(ms, m)
		}
	}
	s := e.M
	if len(ms) > 0 {
		s += "{" + strings.Join(ms, ",") + "}"
	}
	return s
}

// Render produces the PromQL text of the abstract expression. Operands are always parenthesised so the
// text does not depend on the context an expression is embedded in.
func (e *Expr) Render() string {
	switch e.K {
	case "sel":
		s := e.selector()
		if e.Off {
			s += " offset 1m"
		}
		return s
	case "num":
		return fmt.Sprintf("%d", e.V)
	case "time":
		return "time()"
	case "vec":
		return "vector(" + e.E.Render() + ")"
	case "fn":
		switch e.F {
		case "abs":
			return "abs(" + e.E.Render() + ")"
		case "neg":
			return "-(" + e.E.Render() + ")"
		case "scalar":
			return "scalar(" + e.E.Render() + ")"
		case "absent":
			return "absent(" + e.E.Render() + ")"
		case "rate", "lot", "absentot", "maxot", "countot", "presentot":
			fn := map[string]string{"rate": "rate", "lot": "last_over_time", "absentot": "absent_over_time",
				"maxot": "max_over_time", "countot": "count_over_time", "presentot": "present_over_time"}[e.F]
			if e.E.K != "sel" {
				panic(e.F + " needs a selector")
			}
			s := e.E.selector() + "[5m]"
			if e.E.Off {
				s += " offset 1m"
			}
			return fn + "(" + s + ")"
		case "sort":
			return "sort(" + e.E.Render() + ")"
		case "clampmax":
			return "clamp_max(" + e.E.Render() + ", 1)"
		case "round":
			return "round(" + e.E.Render() + ")"
		case "timestamp":
			return "timestamp(" + e.E.Render() + ")"
		case "hq":
			return "histogram_quantile(0.5, " + e.E.Render() + ")"
		case "lotsub":
			return "last_over_time((" + e.E.Render() + ")[5m:1m])"
		case "lrep":
			return fmt.Sprintf("label_replace(%s, %q, %q, %q, %q)", e.E.Render(), LabelName(e.Dst), e.Repl, LabelName(e.Src), e.Re)
		case "ljoin":
			return fmt.Sprintf("label_join(%s, %q, %q, \"a\", \"b\")", e.E.Render(), LabelName(e.Dst), e.Repl)
		}
		panic("unknown fn " + e.F)
	case "agg":
		mod := ""
		switch e.Mod {
		case "by":
			mod = " by(" + dupFirst(names(e.Ls), e.Dup) + ")"
		case "without":
			mod = " without(" + dupFirst(names(e.Ls), e.Dup) + ")"
		}
		switch e.Op {
		case "sum", "count", "group", "max", "min":
			return e.Op + mod + " (" + e.E.Render() + ")"
		case "topk":
			return "topk" + mod + " (9, " + e.E.Render() + ")"
		case "cv":
			return "count_values" + mod + " (\"c\", " + e.E.Render() + ")"
		}
		panic("unknown agg " + e.Op)
	case "bin":
		s := "(" + e.L.Render() + ") " + e.Op
		if e.Bool {
			s += " bool"
		}
		switch e.Vm {
		case "on":
			s += " on(" + names(e.Ls) + ")"
		case "ign":
			s += " ignoring(" + names(e.Ls) + ")"
		}
		switch e.Grp {
		case "left":
			s += " group_left(" + names(e.Inc) + ")"
		case "right":
			s += " group_right(" + names(e.Inc) + ")"
		}
		return s + " (" + e.R.Render() + ")"
	}
	panic("unknown expression kind " + e.K)
}

// Named returns the label names (concrete) the expression text mentions.
func (e *Expr) Named(into map[string]bool) {
	if e == nil {
		return
	}
	switch e.K {
	case "sel":
		if e.Ma != "" && e.Ma != "none" {
			into["a"] = true
		}
		if e.Mb != "" && e.Mb != "none" {
			into["b"] = true
		}
	case "fn":
		switch e.F {
		case "lrep":
			into[LabelName(e.Dst)] = true
			into[LabelName(e.Src)] = true
		case "ljoin":
			into[LabelName(e.Dst)] = true
			into["a"] = true
			into["b"] = true
		}
	case "agg":
		for _, l := range e.Ls {
			into[LabelName(l)] = true
		}
		if e.Op == "cv" {
			into["c"] = true
		}
	case "bin":
		for _, l := range e.Ls {
			into[LabelName(l)] = true
		}
		for _, l := range e.Inc {
			into[LabelName(l)] = true
		}
	}
	e.E.Named(into)
	e.L.Named(into)
	e.R.Named(into)
}

// Metrics returns the metric names used by selectors.
func (e *Expr) Metrics(into map[string]bool) {
	if e == nil {
		return
	}
	if e.K == "sel" {
		into[e.M] = true
	}
	e.E.Metrics(into)
	e.L.Metrics(into)
	e.R.Metrics(into)
}

// HasOr reports whether an `or` occurs anywhere in the expression (more than one result branch).
func (e *Expr) HasOr() bool {
	if e == nil {
		return false
	}
	if e.K == "bin" && e.Op == "or" {
		return true
	}
	return e.E.HasOr() || e.L.HasOr() || e.R.HasOr()
}

// BinaryNodes lists every binary sub-expression (pre-order) with its path ("" root, then l/r/e steps).
func (e *Expr) BinaryNodes(path []string, f func(path []string, b *Expr)) {
	if e == nil {
		return
	}
	if e.K == "bin" {
		f(path, e)
	}
	ext := func(s string) []string { return append(append([]string{}, path...), s) }
	e.E.BinaryNodes(ext("e"), f)
	e.L.BinaryNodes(ext("l"), f)
	e.R.BinaryNodes(ext("r"), f)
}

// Size is the number of AST nodes.
func (e *Expr) Size() int {
	if e == nil {
		return 0
	}
	return 1 + e.E.Size() + e.L.Size() + e.R.Size()
}
