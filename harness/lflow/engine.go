package lflow

import (
	"context"
	"fmt"
	"math"
	"sort"
	"time"

	"github.com/prometheus/prometheus/model/histogram"
	"github.com/prometheus/prometheus/model/labels"
	"github.com/prometheus/prometheus/promql"
	"github.com/prometheus/prometheus/storage"
	"github.com/prometheus/prometheus/tsdb/chunkenc"
	"github.com/prometheus/prometheus/tsdb/chunks"
	"github.com/prometheus/prometheus/util/annotations"
)

// NaN is the integer standing for a NaN sample value (same constant in spec/LabelFlow.tla).
const NaN = -2000000000

// EvalTS is the evaluation timestamp (seconds); time() returns it. Aligned to the 1m subquery step.
const EvalTS = 3600

// Series is one stored / returned series: labels n (= __name__), a, b, c ("-" = absent) and a value.
type Series struct {
	N string `json:"n"`
	A string `json:"a"`
	B string `json:"b"`
	C string `json:"c"`
	V int    `json:"v"`
	// D is a label no generated query ever names (only in the wide databases of the EXEC pool; "" = absent).
	D string `json:"d,omitempty"`
}

func (s Series) Labels() labels.Labels {
	b := labels.NewBuilder(labels.EmptyLabels())
	set := func(k, v string) {
		if v != "-" && v != "" {
			b.Set(k, v)
		}
	}
	set("__name__", s.N)
	set("a", s.A)
	set("b", s.B)
	set("c", s.C)
	set("d", s.D)
	return b.Labels()
}

// Key is the label part as a string.
func (s Series) Key() string { return s.N + "|" + s.A + "|" + s.B + "|" + s.C + "|" + s.D }

// NameSet lists the abstract names of the labels the series carries, e.g. "ab", "n", "".
func (s Series) NameSet() string {
	out := ""
	if s.A != "-" {
		out += "a"
	}
	if s.B != "-" {
		out += "b"
	}
	if s.C != "-" {
		out += "c"
	}
	if s.D != "" && s.D != "-" {
		out += "d"
	}
	if s.N != "-" {
		out += "n"
	}
	return out
}

type sample struct {
	t int64
	f float64
}

func (s sample) T() int64                      { return s.t }
func (s sample) F() float64                    { return s.f }
func (s sample) H() *histogram.Histogram       { return nil }
func (s sample) FH() *histogram.FloatHistogram { return nil }
func (s sample) Type() chunkenc.ValueType      { return chunkenc.ValFloat }
func (s sample) Copy() chunks.Sample           { return s }

type memSeries struct {
	lset    labels.Labels
	samples []chunks.Sample
}

// DB is an in-memory storage.Queryable: every series has the same constant value at every 15s from
// t=2400s to t=3720s, so offsets, ranges, look-back and subquery steps around EvalTS all see the same data.
type DB struct {
	series []memSeries
	Src    []Series
}

func NewDB(ss []Series) *DB {
	db := &DB{Src: ss}
	if db.Src == nil {
		db.Src = []Series{}
	}
	for _, s := range ss {
		var smp []chunks.Sample
		for t := int64(2400); t <= 3720; t += 15 {
			smp = append(smp, sample{t: t * 1000, f: float64(s.V)})
		}
		db.series = append(db.series, memSeries{lset: s.Labels(), samples: smp})
	}
	return db
}

func (db *DB) Querier(mint, maxt int64) (storage.Querier, error) {
	return &querier{db: db, mint: mint, maxt: maxt}, nil
}

type querier struct {
	db         *DB
	mint, maxt int64
}

func (q *querier) Select(_ context.Context, _ bool, _ *storage.SelectHints, ms ...*labels.Matcher) storage.SeriesSet {
	var out []storage.Series
	for _, s := range q.db.series {
		ok := true
		for _, m := range ms {
			if !m.Matches(s.lset.Get(m.Name)) {
				ok = false
				break
			}
		}
		if ok {
			out = append(out, storage.NewListSeries(s.lset, s.samples))
		}
	}
	sort.Slice(out, func(i, j int) bool { return labels.Compare(out[i].Labels(), out[j].Labels()) < 0 })
	return &listSet{series: out, i: -1}
}

func (q *querier) LabelValues(context.Context, string, *storage.LabelHints, ...*labels.Matcher) ([]string, annotations.Annotations, error) {
	return nil, nil, nil
}

func (q *querier) LabelNames(context.Context, *storage.LabelHints, ...*labels.Matcher) ([]string, annotations.Annotations, error) {
	return nil, nil, nil
}
func (q *querier) Close() error { return nil }

type listSet struct {
	series []storage.Series
	i      int
}

func (l *listSet) Next() bool                        { l.i++; return l.i < len(l.series) }
func (l *listSet) At() storage.Series                { return l.series[l.i] }
func (l *listSet) Err() error                        { return nil }
func (l *listSet) Warnings() annotations.Annotations { return nil }

// NewEngine builds the real PromQL engine with Prometheus' default settings.
func NewEngine() *promql.Engine {
	return promql.NewEngine(promql.EngineOpts{
		MaxSamples:               1_000_000,
		Timeout:                  30 * time.Second,
		LookbackDelta:            5 * time.Minute,
		NoStepSubqueryIntervalFn: func(int64) int64 { return 60_000 },
	})
}

func toInt(f float64) (int, error) {
	if math.IsNaN(f) {
		return NaN, nil
	}
	if math.IsInf(f, 0) || f != math.Trunc(f) || math.Abs(f) > 1e9 {
		return 0, fmt.Errorf("sample value %v is outside the modelled value domain", f)
	}
	return int(f), nil
}

func fromLabels(l labels.Labels, f float64) (Series, error) {
	s := Series{N: "-", A: "-", B: "-", C: "-"}
	var bad error
	l.Range(func(lb labels.Label) {
		switch lb.Name {
		case "__name__":
			s.N = lb.Value
		case "a":
			s.A = lb.Value
		case "b":
			s.B = lb.Value
		case "c":
			s.C = lb.Value
			if s.C == "-0" { // count_values of a negative zero; the value domain of the specification has one zero
				s.C = "0"
			}
		case "d":
			s.D = lb.Value
		default:
			bad = fmt.Errorf("label %q outside the universe", lb.Name)
		}
	})
	if bad != nil {
		return s, bad
	}
	v, err := toInt(f)
	s.V = v
	return s, err
}

// Result of one evaluation: the returned series (sorted), or Err when the engine refused the query
// (duplicate series, many-to-many matching, ...) in which case a rule produces nothing.
type Result struct {
	Series []Series
	Err    string
}

// Eval runs the query on the real engine the way rule evaluation does (rules.EngineQueryFunc): an instant
// query at EvalTS; a scalar result becomes one sample without labels.
func Eval(eng *promql.Engine, db *DB, q string) (Result, error) {
	ctx := context.Background()
	qry, err := eng.NewInstantQuery(ctx, db, nil, q, time.Unix(EvalTS, 0))
	if err != nil {
		return Result{}, fmt.Errorf("query %q rejected: %w", q, err)
	}
	defer qry.Close()
	res := qry.Exec(ctx)
	if res.Err != nil {
		return Result{Err: res.Err.Error()}, nil
	}
	var out []Series
	switch v := res.Value.(type) {
	case promql.Vector:
		for _, smp := range v {
			if smp.H != nil {
				return Result{}, fmt.Errorf("histogram sample in result of %q", q)
			}
			s, err := fromLabels(smp.Metric, smp.F)
			if err != nil {
				return Result{}, fmt.Errorf("%q: %w", q, err)
			}
			out = append(out, s)
		}
	case promql.Scalar:
		f, err := toInt(v.V)
		if err != nil {
			return Result{}, fmt.Errorf("%q: %w", q, err)
		}
		out = append(out, Series{N: "-", A: "-", B: "-", C: "-", V: f})
	default:
		return Result{}, fmt.Errorf("%q: unsupported result type %T", q, res.Value)
	}
	sort.Slice(out, func(i, j int) bool {
		if out[i].Key() != out[j].Key() {
			return out[i].Key() < out[j].Key()
		}
		return out[i].V < out[j].V
	})
	return Result{Series: out}, nil
}
