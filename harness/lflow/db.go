package lflow

import (
	"math/rand"
	"sort"
)

// RandDB draws a database over metrics m and n. Labels listed in force are present on every series
// (the premise of C12); the others are present or absent at random. No two series share a label set.
func RandDB(rng *rand.Rand, force map[string]bool) []Series { return randDB(rng, force, false) }

// WideDB is RandDB with up to 5 series per metric and an extra label d that no query names.
func WideDB(rng *rand.Rand, force map[string]bool) []Series { return randDB(rng, force, true) }

func randDB(rng *rand.Rand, force map[string]bool, wide bool) []Series {
	var out []Series
	seen := map[string]bool{}
	pick := func(l string, vals []string, pAbsent int) string {
		if !force[l] && rng.Intn(100) < pAbsent {
			return "-"
		}
		return vals[rng.Intn(len(vals))]
	}
	for _, m := range []string{"m", "n"} {
		k := []int{0, 1, 1, 1, 2, 2, 2, 3}[rng.Intn(8)]
		if wide {
			k = 1 + rng.Intn(5)
		}
		for i := 0; i < k; i++ {
			s := Series{N: m,
				A: pick("a", []string{"x", "y"}, 30),
				B: pick("b", []string{"x", "y"}, 35),
				C: pick("c", []string{"x", "y"}, 65),
				V: 1 + rng.Intn(2)}
			if wide && rng.Intn(2) == 0 {
				s.D = []string{"x", "y"}[rng.Intn(2)]
			}
			if seen[s.Key()] {
				continue
			}
			seen[s.Key()] = true
			out = append(out, s)
		}
	}
	sort.Slice(out, func(i, j int) bool { return out[i].Key() < out[j].Key() })
	return out
}

// SmallDBs enumerates every database with at most one series per metric over the given label values
// (used in front of the random ones so the simplest witnesses are always tried).
func SmallDBs(force map[string]bool) [][]Series {
	opts := func(l string, vals []string) []string {
		if force[l] {
			return vals
		}
		return append([]string{"-"}, vals...)
	}
	var per [][]Series
	for _, m := range []string{"m", "n"} {
		ss := []Series{}
		for _, a := range opts("a", []string{"x", "y"}) {
			for _, b := range opts("b", []string{"x"}) {
				for _, c := range opts("c", []string{"x"}) {
					ss = append(ss, Series{N: m, A: a, B: b, C: c, V: 1})
				}
			}
		}
		per = append(per, ss)
	}
	var out [][]Series
	for i := -1; i < len(per[0]); i++ {
		for j := -1; j < len(per[1]); j++ {
			db := []Series{}
			if i >= 0 {
				db = append(db, per[0][i])
			}
			if j >= 0 {
				db = append(db, per[1][j])
			}
			out = append(out, db)
		}
	}
	return out
}
