package main

// Seeded byte/line/token mutation operators used by the off-model exploration of C01 and C02.
// Pure text manipulation: no knowledge of what pint or Prometheus will make of the result.

import (
	"bytes"
	"math/rand"
	"strings"
)

var mutTokens = []string{
	"record", "alert", "expr", "for", "keep_firing_for", "labels", "annotations", "groups", "name", "rules",
	"interval", "query_offset", "limit", "partial_response_strategy",
}

var mutValues = []string{
	"~", "null", "true", "1", "1.5", "[]", "{}", "[a]", "{a: b}", `""`, "''", "|", ">", "|-", ">+", "!!binary aGk=", "!!str 1",
	"!!int x", "*a", "&a x", "'{{ $x }}'", `"{{ .X }}"`, "sum(", "1x", "0", "-1", "0x10", "2024-01-01", ".inf", "? a", "- a", "foo{bar}",
	"__name__", `"\xff"`, `"\u0000"`, "a: b: c", "@", "`", "%", "!", "&", "*",
	`" "`, `"\t"`, `' '`, `count_values(("x"), up)`, `label_join(up, ("foo"), "", "a")`, `label_replace(up, ("foo"), "x", "a", "(.*)")`, `sum by (("job")) (up)`,
	`"a\n\nb"`, `"\n\n\n"`, `up{"foo(bar"=~"a"}`, `{"a.b"="c"}`, `up{job=~"a|b"} == 0`, `sum by ("a b") (up)`, `'{"up", job!~"[a"}'`, `count({__name__=~".+"})`,
}

var mutLines = []string{
	"---", "...", "<<: *a", "  <<: *a", "    <<: *a", "- &a", "  - &a {alert: X, expr: up}", "  - *a", "x: &a {team: a}", "    labels: *a",
	"    <<: {expr: up}", "# comment", "  # comment", "", "   ", "\t", "- name: z", "  rules:", "  - record: z", "    expr: up", "groups:",
	"    labels:", "      a: b", "    annotations: &a", "  - alert: Z", "%YAML 1.2", "  ? complex", "  : value",
}

type mutOp struct {
	name string
	f    func(rng *rand.Rand, b []byte) []byte
}

func splitKeep(b []byte) []string { return strings.SplitAfter(string(b), "\n") }

func pickLine(rng *rand.Rand, ls []string) int {
	if len(ls) == 0 {
		return -1
	}
	return rng.Intn(len(ls))
}

func lineOp(f func(rng *rand.Rand, ls []string, i int) []string) func(rng *rand.Rand, b []byte) []byte {
	return func(rng *rand.Rand, b []byte) []byte {
		ls := splitKeep(b)
		if len(ls) > 0 && ls[len(ls)-1] == "" {
			ls = ls[:len(ls)-1]
		}
		i := pickLine(rng, ls)
		if i < 0 {
			return b
		}
		return []byte(strings.Join(f(rng, ls, i), ""))
	}
}

func insertAt(b []byte, pos int, ins []byte) []byte {
	out := make([]byte, 0, len(b)+len(ins))
	out = append(out, b[:pos]...)
	out = append(out, ins...)
	return append(out, b[pos:]...)
}

func byteIns(choices ...string) func(rng *rand.Rand, b []byte) []byte {
	return func(rng *rand.Rand, b []byte) []byte {
		return insertAt(b, rng.Intn(len(b)+1), []byte(choices[rng.Intn(len(choices))]))
	}
}

var mutOps = []mutOp{
	{"delLine", lineOp(func(rng *rand.Rand, ls []string, i int) []string { return append(append([]string{}, ls[:i]...), ls[i+1:]...) })},
	{"dupLine", lineOp(func(rng *rand.Rand, ls []string, i int) []string {
		out := append([]string{}, ls[:i+1]...)
		return append(append(out, ls[i]), ls[i+1:]...)
	})},
	{"swapLines", lineOp(func(rng *rand.Rand, ls []string, i int) []string {
		j := rng.Intn(len(ls))
		out := append([]string{}, ls...)
		out[i], out[j] = out[j], out[i]
		return out
	})},
	{"moveLine", lineOp(func(rng *rand.Rand, ls []string, i int) []string {
		l := ls[i]
		out := append(append([]string{}, ls[:i]...), ls[i+1:]...)
		j := rng.Intn(len(out) + 1)
		return append(append(append([]string{}, out[:j]...), l), out[j:]...)
	})},
	{"indentMore", lineOp(func(rng *rand.Rand, ls []string, i int) []string {
		out := append([]string{}, ls...)
		out[i] = strings.Repeat(" ", 1+rng.Intn(3)) + out[i]
		return out
	})},
	{"indentLess", lineOp(func(rng *rand.Rand, ls []string, i int) []string {
		out := append([]string{}, ls...)
		n := 1 + rng.Intn(3)
		for n > 0 && strings.HasPrefix(out[i], " ") {
			out[i] = out[i][1:]
			n--
		}
		return out
	})},
	{"tabIndent", lineOp(func(rng *rand.Rand, ls []string, i int) []string {
		out := append([]string{}, ls...)
		out[i] = "\t" + strings.TrimLeft(out[i], " ")
		return out
	})},
	{"crEnd", lineOp(func(rng *rand.Rand, ls []string, i int) []string {
		out := append([]string{}, ls...)
		if strings.HasSuffix(out[i], "\n") {
			out[i] = strings.TrimSuffix(out[i], "\n") + "\r\n"
		} else {
			out[i] += "\r"
		}
		return out
	})},
	{"crOnly", lineOp(func(rng *rand.Rand, ls []string, i int) []string {
		out := append([]string{}, ls...)
		out[i] = strings.TrimSuffix(out[i], "\n") + "\r"
		return out
	})},
	{"crlfAll", func(rng *rand.Rand, b []byte) []byte { return bytes.ReplaceAll(b, []byte("\n"), []byte("\r\n")) }},
	{"noFinalNL", func(rng *rand.Rand, b []byte) []byte { return bytes.TrimRight(b, "\n") }},
	{"extraNL", func(rng *rand.Rand, b []byte) []byte { return append(append([]byte{}, b...), '\n', '\n') }},
	{"nul", byteIns("\x00")},
	{"badUTF8", byteIns("\xff", "\xc3", "\xe2\x82", "\xf0\x9f", "\xc0\x80", "\xed\xa0\x80")},
	{"unicodeSep", byteIns("\u2028", "\u2029", "\u0085", "\ufeff", "\u00a0")},
	{"ctrl", byteIns("\x01", "\x07", "\x0b", "\x0c", "\x1b", "\x7f")},
	{"tab", byteIns("\t")},
	{"bom", func(rng *rand.Rand, b []byte) []byte { return append([]byte("\xef\xbb\xbf"), b...) }},
	{"delByte", func(rng *rand.Rand, b []byte) []byte {
		if len(b) == 0 {
			return b
		}
		p := rng.Intn(len(b))
		return append(append([]byte{}, b[:p]...), b[p+1:]...)
	}},
	{"setByte", func(rng *rand.Rand, b []byte) []byte {
		if len(b) == 0 {
			return b
		}
		out := append([]byte{}, b...)
		const cs = "{}[]:,#&*!|>'\"%@`-? \n\tabc019~\\"
		out[rng.Intn(len(out))] = cs[rng.Intn(len(cs))]
		return out
	}},
	{"dupRange", func(rng *rand.Rand, b []byte) []byte {
		if len(b) < 2 {
			return b
		}
		p := rng.Intn(len(b) - 1)
		q := p + 1 + rng.Intn(min(len(b)-p-1, 40)+0)
		if q > len(b) {
			q = len(b)
		}
		return insertAt(b, q, b[p:q])
	}},
	{"truncate", func(rng *rand.Rand, b []byte) []byte {
		if len(b) == 0 {
			return b
		}
		return append([]byte{}, b[:rng.Intn(len(b))]...)
	}},
	{"swapToken", func(rng *rand.Rand, b []byte) []byte {
		s := string(b)
		var present []string
		for _, t := range mutTokens {
			if strings.Contains(s, t+":") {
				present = append(present, t)
			}
		}
		if len(present) == 0 {
			return b
		}
		from := present[rng.Intn(len(present))]
		to := mutTokens[rng.Intn(len(mutTokens))]
		idx := allIndex(s, from+":")
		p := idx[rng.Intn(len(idx))]
		return []byte(s[:p] + to + s[p+len(from):])
	}},
	{"setValue", lineOp(func(rng *rand.Rand, ls []string, i int) []string {
		out := append([]string{}, ls...)
		l := strings.TrimSuffix(out[i], "\n")
		if p := strings.Index(l, ": "); p >= 0 {
			l = l[:p+2] + mutValues[rng.Intn(len(mutValues))]
		} else if strings.HasSuffix(l, ":") {
			l += " " + mutValues[rng.Intn(len(mutValues))]
		} else {
			return ls
		}
		out[i] = l + "\n"
		return out
	})},
	{"anchorValue", lineOp(func(rng *rand.Rand, ls []string, i int) []string {
		out := append([]string{}, ls...)
		l := strings.TrimSuffix(out[i], "\n")
		if p := strings.Index(l, ": "); p >= 0 {
			l = l[:p+2] + "&a " + l[p+2:]
		} else if strings.HasSuffix(l, ":") {
			l += " &a"
		} else {
			return ls
		}
		out[i] = l + "\n"
		return out
	})},
	{"aliasValue", lineOp(func(rng *rand.Rand, ls []string, i int) []string {
		out := append([]string{}, ls...)
		l := strings.TrimSuffix(out[i], "\n")
		if p := strings.Index(l, ": "); p >= 0 {
			l = l[:p+2] + "*a"
		} else if strings.HasSuffix(l, ":") {
			l += " *a"
		} else {
			return ls
		}
		out[i] = l + "\n"
		return out
	})},
	{"insLine", lineOp(func(rng *rand.Rand, ls []string, i int) []string {
		out := append([]string{}, ls[:i]...)
		out = append(out, mutLines[rng.Intn(len(mutLines))]+"\n")
		return append(out, ls[i:]...)
	})},
	{"insLineIndented", lineOp(func(rng *rand.Rand, ls []string, i int) []string {
		ind := len(ls[i]) - len(strings.TrimLeft(ls[i], " "))
		out := append([]string{}, ls[:i]...)
		out = append(out, strings.Repeat(" ", ind)+strings.TrimLeft(mutLines[rng.Intn(len(mutLines))], " ")+"\n")
		return append(out, ls[i:]...)
	})},
	{"longLine", lineOp(func(rng *rand.Rand, ls []string, i int) []string {
		out := append([]string{}, ls...)
		out[i] = strings.TrimSuffix(out[i], "\n") + strings.Repeat(" x", 3000) + "\n"
		return out
	})},
	// wrappers the relaxed parser is meant for: extra top-level keys, rules nested in other documents, YAML inside YAML
	{"appendKey", func(rng *rand.Rand, b []byte) []byte {
		tails := []string{"description: \"line one\\nline two\\nline three\"", "zz: |\n  a\n\n  b", "notes: 'a\n\n  b'", "zz: \"\\n\\n\\n\""}
		out := append([]byte{}, b...)
		if len(out) > 0 && out[len(out)-1] != '\n' {
			out = append(out, '\n')
		}
		out = append(out, tails[rng.Intn(len(tails))]...)
		if rng.Intn(2) == 0 {
			out = append(out, '\n')
		}
		return out
	}},
	{"nestUnder", func(rng *rand.Rand, b []byte) []byte {
		heads := []string{"apiVersion: monitoring.coreos.com/v1\nkind: PrometheusRule\nspec:\n", "values:\n  prometheus:\n", "- job: x\n  data:\n"}
		h := heads[rng.Intn(len(heads))]
		ind := strings.Repeat(" ", 2+2*rng.Intn(2))
		ls := splitKeep(b)
		var sb strings.Builder
		sb.WriteString(h)
		for _, l := range ls {
			if l != "" {
				sb.WriteString(ind + l)
			}
		}
		return []byte(sb.String())
	}},
	{"yamlInYaml", func(rng *rand.Rand, b []byte) []byte {
		ls := splitKeep(b)
		var sb strings.Builder
		sb.WriteString("kind: ConfigMap\ndata:\n  rules.yml: " + []string{"|", "|-", ">", "|+"}[rng.Intn(4)] + "\n")
		for _, l := range ls {
			if l != "" {
				sb.WriteString("    " + l)
			}
		}
		return []byte(sb.String())
	}},
	// wrap one double-quoted string of an expr line in parentheses: sum("x") -> sum(("x"))  (PromQL keeps it as a ParenExpr)
	{"parenString", lineOp(func(rng *rand.Rand, ls []string, i int) []string {
		var cand []int
		for k, l := range ls {
			if strings.Contains(l, "expr") && strings.Count(l, `"`) >= 2 {
				cand = append(cand, k)
			}
		}
		if len(cand) == 0 {
			return ls
		}
		k := cand[rng.Intn(len(cand))]
		l := ls[k]
		idx := allIndex(l, `"`)
		p := rng.Intn(len(idx) / 2)
		a, b := idx[2*p], idx[2*p+1]
		out := append([]string{}, ls...)
		out[k] = l[:a] + "(" + l[a:b+1] + ")" + l[b+1:]
		return out
	})},
	{"blockScalar", lineOp(func(rng *rand.Rand, ls []string, i int) []string {
		l := strings.TrimSuffix(ls[i], "\n")
		p := strings.Index(l, ": ")
		if p < 0 {
			return ls
		}
		ind := len(l) - len(strings.TrimLeft(l, " -"))
		style := []string{"|", ">", "|-", ">-", "|+", "|2"}[rng.Intn(6)]
		out := append([]string{}, ls[:i]...)
		out = append(out, l[:p+2]+style+"\n", strings.Repeat(" ", ind+2)+l[p+2:]+"\n")
		return append(out, ls[i+1:]...)
	})},
}

func allIndex(s, sub string) (out []int) {
	for off := 0; ; {
		p := strings.Index(s[off:], sub)
		if p < 0 {
			return out
		}
		out = append(out, off+p)
		off += p + 1
	}
}

// MutOpNames lists the operator names (for coverage accounting).
func MutOpNames() (out []string) {
	for _, o := range mutOps {
		out = append(out, o.name)
	}
	return out
}

// Mutate applies n random operators.
func Mutate(rng *rand.Rand, content []byte, n int) ([]byte, []string) {
	var ops []string
	for k := 0; k < n; k++ {
		op := mutOps[rng.Intn(len(mutOps))]
		content = op.f(rng, content)
		ops = append(ops, op.name)
	}
	return content, ops
}

// SelfAnchor makes one value of the document an anchor that contains itself ("key: &self\n  - *self").
// It is applied by the binary slice only: walking such a document may overflow the stack, which no in-process
// harness can survive.
func SelfAnchor(rng *rand.Rand, b []byte) []byte {
	ls := splitKeep(b)
	var cand []int
	for k, l := range ls {
		t := strings.TrimRight(l, "\r\n")
		if strings.HasSuffix(t, ":") || strings.Contains(t, ": ") {
			cand = append(cand, k)
		}
	}
	if len(cand) == 0 {
		return append([]byte("x: &self\n  - *self\n"), b...)
	}
	k := cand[rng.Intn(len(cand))]
	l := strings.TrimRight(ls[k], "\r\n")
	ind := len(l) - len(strings.TrimLeft(l, " -"))
	key := l
	if p := strings.Index(l, ": "); p >= 0 {
		key = l[:p+1]
	}
	shape := []string{"- *self", "x: *self", "- - *self"}[rng.Intn(3)]
	ls[k] = key + " &self\n" + strings.Repeat(" ", ind+2) + shape + "\n"
	return []byte(strings.Join(ls, ""))
}
