package main

// exec-c06: EXEC for the Layout family (C06).
// Every case carries the document the specification rendered (`lines`, one string per line, the
// placeholder '@' standing for one 2-byte rune) plus the abstract layout (`lay`, echoed untouched for
// JUDGE). The harness writes the document, runs pint's real parser in strict and relaxed mode, reads
// the characters at every YamlNode.Pos back from the file, runs the real lint pipeline (default
// offline checks + a configuration that makes rule/name, rule/for, rule/label, alerts/annotation,
// rule/reject, rule/report, promql/aggregate report on every field) and reads every diagnostic's
// column range back through the real diags.readRange. No judgement here.

import (
	"context"
	"encoding/json"
	"fmt"
	"os"
	"path/filepath"
	"reflect"
	"regexp"
	"runtime"
	"runtime/debug"
	"sync"

	"github.com/prometheus/client_golang/prometheus"
	"github.com/prometheus/common/model"

	"github.com/cloudflare/pint/internal/checks"
	"github.com/cloudflare/pint/internal/config"
	"github.com/cloudflare/pint/internal/discovery"
	"github.com/cloudflare/pint/internal/git"
	"github.com/cloudflare/pint/internal/parser"
	"github.com/cloudflare/pint/internal/promapi"
	"github.com/cloudflare/pint/verifharness/layout"
	"github.com/cloudflare/pint/verifharness/pipe"
)

// layCRLF: the layout asks for CR LF line endings.
func layCRLF(lay json.RawMessage) bool {
	var l struct {
		Crlf bool `json:"crlf"`
	}
	return json.Unmarshal(lay, &l) == nil && l.Crlf
}

// layThanos: the group header of the layout uses a key of the Thanos rule schema.
func layThanos(lay json.RawMessage) bool {
	var l struct {
		Ghdr []struct {
			K string `json:"k"`
		} `json:"ghdr"`
	}
	if json.Unmarshal(lay, &l) != nil {
		return false
	}
	for _, g := range l.Ghdr {
		if g.K == "prs" {
			return true
		}
	}
	return false
}

// strictable: the layout is a plain strict rule file (no wrapper), so diagnostics are collected in strict mode;
// every other layout is linted in relaxed mode.
func strictable(lay json.RawMessage) bool {
	var l struct {
		Base string `json:"base"`
		Wrap struct {
			Levels []json.RawMessage `json:"levels"`
			DocB   bool              `json:"docB"`
			DocA   bool              `json:"docA"`
		} `json:"wrap"`
	}
	if json.Unmarshal(lay, &l) != nil {
		return true
	}
	return l.Base != "list" && len(l.Wrap.Levels) == 0 && !l.Wrap.DocB && !l.Wrap.DocA
}

type c06Case struct {
	ID    int             `json:"id"`
	Lines []string        `json:"lines"`
	Lay   json.RawMessage `json:"lay"`
}

type c06Diag struct {
	Check string `json:"check"`
	Mode  string `json:"mode"`
	Rule  int    `json:"rule"`  // index of the entry (1-based)
	Field string `json:"field"` // node whose Pos the diagnostic carries ("?" = none of the rule's nodes)
	First int    `json:"first"`
	Last  int    `json:"last"`
	DL    int    `json:"dl"`
	Exp   string `json:"exp"` // value[First-1:Last], collapsed
	Rb    string `json:"rb"`  // file characters at readRange(min(First,dl), min(Last,dl), Pos), collapsed
	Out   int    `json:"out"`
	Caret string `json:"caret"` // characters above the carets InjectDiagnostics draws, collapsed
	CExp  string `json:"cexp"`  // characters of the last line of the readRange cells, collapsed
}

type c06Rec struct {
	Ev        string          `json:"ev"`
	ID        int             `json:"id"`
	Lay       json.RawMessage `json:"lay"`
	Lines     []string        `json:"lines"`
	LineLen   []int           `json:"linelen"`
	Strict    layout.File     `json:"strict"`
	Relaxed   layout.File     `json:"relaxed"`
	Same      bool            `json:"relaxed_same"` // relaxed projection identical to the strict one (then `relaxed` is left empty)
	Diags     []c06Diag       `json:"diags"`
	LintPanic string          `json:"lintpanic"`
	ReadRange string          `json:"readrange"`
}

const c06Config = `
rule {
  match {
    kind = "alerting"
  }
  name "zz never .+" {
    severity = "info"
  }
  for {
    min      = "300h"
    severity = "info"
  }
  keep_firing_for {
    min      = "300h"
    severity = "info"
  }
  label ".+" {
    value    = "zz never"
    severity = "info"
  }
  annotation ".+" {
    value    = "zz never"
    severity = "info"
  }
  reject ".*" {
    label_keys        = true
    label_values      = true
    annotation_keys   = true
    annotation_values = true
    severity          = "info"
  }
  aggregate ".+" {
    keep     = ["zzjob"]
    severity = "info"
  }
  report {
    comment  = "marker"
    severity = "info"
  }
}
rule {
  match {
    kind = "recording"
  }
  name "zz never .+" {
    severity = "info"
  }
  label ".+" {
    value    = "zz never"
    severity = "info"
  }
  reject ".*" {
    label_keys   = true
    label_values = true
    severity     = "info"
  }
  aggregate ".+" {
    keep     = ["zzjob"]
    severity = "info"
  }
  report {
    comment  = "marker"
    severity = "info"
  }
}
`

func mustJSON(v any) string {
	b, err := json.Marshal(v)
	if err != nil {
		panic(err)
	}
	return string(b)
}

func sliceValue(v string, first, last int) string {
	if first < 1 {
		first = 1
	}
	if last > len(v) {
		last = len(v)
	}
	if first > last {
		return ""
	}
	return v[first-1 : last]
}

// c06Linter drives config.GetChecksForEntry -> RuleChecker.Check the way cmd/pint/scan.go does, with the
// configuration loaded once (the same code path as pipe.RunChecks, minus the per-call set-up).
type c06Linter struct {
	cfg config.Config
	gen *config.PrometheusGenerator
	ctx context.Context
	mu  sync.Mutex // parser.NewParser writes the global model.NameValidationScheme
}

func newC06Linter() (*c06Linter, error) {
	dir, err := os.MkdirTemp(shmDir(), "vh-c06cfg-")
	if err != nil {
		return nil, err
	}
	defer os.RemoveAll(dir)
	cfg, err := pipe.LoadConfig(dir, c06Config)
	if err != nil {
		return nil, err
	}
	cfg.SetDisabledChecks(nil)
	cfg.DisableOnlineChecks()
	l := &c06Linter{cfg: cfg}
	l.ctx = context.WithValue(context.Background(), config.CommandKey, config.LintCommand)
	l.gen = config.NewPrometheusGenerator(cfg, prometheus.NewRegistry())
	if err := l.gen.GenerateStatic(); err != nil {
		return nil, err
	}
	l.ctx = context.WithValue(l.ctx, promapi.AllPrometheusServers, l.gen.Servers())
	for _, s := range cfg.Check {
		settings, _ := s.Decode()
		l.ctx = context.WithValue(l.ctx, checks.SettingsKey(s.Name), settings)
	}
	return l, nil
}

func (l *c06Linter) diags(file []string, strict, crlf, thanos bool, out *[]c06Diag) (perr string) {
	schema := parser.PrometheusSchema
	if thanos {
		schema = parser.ThanosSchema
	}
	defer func() {
		if r := recover(); r != nil {
			perr = fmt.Sprintf("panic: %v\n%s", r, debug.Stack())
		}
	}()
	mode := "relaxed"
	if strict {
		mode = "strict"
	}
	dir, err := os.MkdirTemp(shmDir(), "vh-c06-")
	if err != nil {
		return err.Error()
	}
	defer os.RemoveAll(dir)
	path := filepath.Join(dir, "rules.yml")
	if err := os.WriteFile(path, []byte(layout.ContentEOL(file, crlf)), 0o644); err != nil {
		return err.Error()
	}
	var relaxed []*regexp.Regexp
	if !strict {
		relaxed = []*regexp.Regexp{regexp.MustCompile(".*")}
	}
	l.mu.Lock()
	entries, err := discovery.NewGlobFinder([]string{path}, git.NewPathFilter(nil, nil, relaxed), schema,
		model.UTF8Validation, l.cfg.Owners.CompileAllowed()).Find()
	l.mu.Unlock()
	if err != nil {
		return err.Error()
	}
	for ei, entry := range entries {
		if entry.PathError != nil || entry.Rule.Error.Err != nil {
			continue
		}
		phys := layout.Phys(file, crlf)
		nodes := layout.RuleNodes(entry.Rule, phys)
		for _, chk := range l.cfg.GetChecksForEntry(l.ctx, l.gen, entry) {
			for _, p := range chk.Check(l.ctx, entry, entries) {
				for _, d := range p.Diagnostics {
					cd := c06Diag{Check: p.Reporter, Mode: mode, Rule: ei + 1, Field: "?",
						First: d.FirstColumn, Last: d.LastColumn, DL: d.Pos.Len()}
					raw := ""
					for _, n := range nodes {
						if reflect.DeepEqual(n.P, d.Pos) {
							cd.Field = n.Field
							raw = n.Raw
							break
						}
					}
					cells := layout.DiagRange(d.FirstColumn, d.LastColumn, d.Pos)
					rb, o := layout.ReadBackIn(phys, cells, d.Pos)
					cd.Rb, cd.Out = layout.Abstract(layout.Collapse(rb)), o
					cd.Exp = layout.Abstract(layout.Collapse(sliceValue(raw, d.FirstColumn, d.LastColumn)))
					cd.Caret, cd.CExp = layout.Carets(file, crlf, d, cells)
					*out = append(*out, cd)
				}
			}
		}
	}
	return ""
}

func init() {
	register("exec-c06", func(in []json.RawMessage, out *Out, args []string) error {
		recs := make([]c06Rec, len(in))
		nodiag := os.Getenv("C06_NO_DIAGS") != ""
		lint, err := newC06Linter()
		if err != nil {
			return err
		}
		defer lint.gen.Stop()
		parallel(len(in), runtime.NumCPU(), func(i int) {
			var cs c06Case
			if err := json.Unmarshal(in[i], &cs); err != nil {
				panic(err)
			}
			file := layout.Concrete(cs.Lines)
			r := c06Rec{Ev: "Case", ID: cs.ID, Lay: cs.Lay, Lines: cs.Lines, Diags: []c06Diag{}, ReadRange: layout.ReadRangeImpl}
			if r.Lay == nil {
				r.Lay = json.RawMessage("{}")
			}
			for _, l := range file {
				r.LineLen = append(r.LineLen, len(l))
			}
			crlf := layCRLF(cs.Lay)
			r.Strict = layout.ParseWith(file, true, crlf, layThanos(cs.Lay))
			r.Relaxed = layout.ParseEOL(file, false, crlf)
			if a, b := mustJSON(r.Strict), mustJSON(r.Relaxed); a == b {
				r.Same = true
				r.Relaxed = layout.File{Groups: []layout.Group{}, Flat: []layout.Rule{}}
			}
			if !nodiag {
				r.LintPanic = lint.diags(file, r.Strict.Err == "" && strictable(cs.Lay), crlf, layThanos(cs.Lay), &r.Diags)
			}
			recs[i] = r
		})
		for _, r := range recs {
			out.Write(r)
		}
		return nil
	})
}
