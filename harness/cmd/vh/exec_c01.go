package main

// exec-c01: EXEC for the StrictSchema family (C01).
// Every abstract document from GEN is concretised (schemadoc.Render) and given, byte for byte, to
//   (a) pint's real strict lint pipeline (in-process: discovery -> GetChecksForEntry -> Check), and
//   (b) Prometheus' real loader  rulefmt.Parse(bytes, false).
// The record holds what both did. The only processing here is projection: pint's messages are
// normalised to stage codes (table below) so that TLC can compare them with StrictSchema!PintStages.
//
// exec-c01-mut: the same two runs on seeded byte/line/token mutations of base documents (off-model
// exploration); one small record per mutated input, the bytes of inputs pint passed go to a side file.

import (
	"encoding/base64"
	"encoding/json"
	"fmt"
	"math/rand"
	"os"
	"regexp"
	"runtime"
	"sort"
	"strconv"
	"strings"
	"sync"

	"github.com/prometheus/common/model"
	"github.com/prometheus/prometheus/model/rulefmt"

	"github.com/cloudflare/pint/verifharness/pipe"
	"github.com/cloudflare/pint/verifharness/schemadoc"
)

type codeRule struct {
	re   *regexp.Regexp
	code string
}

func crs(pairs ...string) (out []codeRule) {
	for i := 0; i < len(pairs); i += 2 {
		out = append(out, codeRule{regexp.MustCompile(pairs[i]), pairs[i+1]})
	}
	return out
}

// message -> stage code, per entry kind. First match wins.
var c01PathCodes = crs(
	`^top level field must be a groups key`, "file:top:type",
	`^groups key must be a string`, "file:top:keytype",
	`^unexpected key `, "file:top:unknown",
	`^groups value must be a list`, "file:groups:type",
	`^duplicated group name`, "file:dupname",
	`^multi-document YAML files are not allowed`, "file:multidoc",
	`^group must be a mapping`, "group:type",
	`^group name must be a string`, "group:name:type",
	`^group name cannot be empty`, "group:name:empty",
	`^group (interval|query_offset) must be a string`, "group:$1:type",
	`^invalid (interval|query_offset) value`, "group:$1:value",
	`^group limit must be a`, "group:limit:type",
	`^group labels must be a mapping`, "group:labels:type",
	`^labels .*value must be a string`, "group:labels:valtype",
	`^duplicated labels key`, "group:labels:dupinner",
	`^rules must be a list`, "group:rules:type",
	`^partial_response_strategy is only valid`, "group:partial_response_strategy:schema",
	`^partial_response_strategy must be a string`, "group:partial_response_strategy:type",
	`^invalid partial_response_strategy value`, "group:partial_response_strategy:value",
	`^invalid group key`, "group:unknown",
	`^duplicated key groups$`, "file:top:dup",
	`^duplicated key (\w+)`, "group:dup:$1",
	`^invalid label name`, "group:labels:name",
	`^invalid label value`, "group:labels:value",
	`^incomplete group definition`, "group:noname",
)

var c01RuleCodes = crs(
	`^rule definion must be a mapping`, "rule:type",
	`^invalid rule key`, "rule:unknown",
	`^incomplete rule, no alert or record key`, "rule:incomplete",
	`^duplicated (labels|annotations) key \S`, "rule:$1:dupinner",
	`^duplicated (\w+) key$`, "rule:dup:$1",
	`^got both record and alert`, "rule:both",
	`^invalid field '(\w+)' in recording rule`, "rule:recfield:$1",
	`^(record|alert|expr|for|keep_firing_for|labels|annotations) value must be a`, "rule:$1:type",
	`^(labels|annotations) .*value must be a string`, "rule:$1:valtype",
	`^(record|alert|expr) value cannot be empty`, "rule:$1:empty",
	`^missing expr key`, "rule:noexpr",
	`^invalid recording rule name`, "rule:record:name",
	`^braces present in the recording rule name`, "rule:record:braces",
	`^invalid label name`, "rule:labels:name",
	`^invalid label value`, "rule:labels:value",
	`^invalid annotation name`, "rule:annotations:name",
)

var c01RuleWrap = regexp.MustCompile("(?s)^This rule is not a valid Prometheus rule: `(.*)`\\.$")

func c01Match(rules []codeRule, msg string) (string, bool) {
	for _, r := range rules {
		if m := r.re.FindStringSubmatchIndex(msg); m != nil {
			return string(r.re.ExpandString(nil, r.code, msg, m)), true
		}
	}
	return "", false
}

// c01Code projects one report of severity >= Bug to a stage code.
func c01Code(rep pipe.Rep, kind string) string {
	switch rep.Reporter {
	case "yaml/parse":
		if kind == "patherror" {
			if c, ok := c01Match(c01PathCodes, rep.Summary); ok {
				return c
			}
			return "file:yaml"
		}
		if m := c01RuleWrap.FindStringSubmatch(rep.Summary); m != nil {
			if c, ok := c01Match(c01RuleCodes, m[1]); ok {
				return c
			}
		}
		return "rule:other"
	case "promql/syntax":
		return "check:syntax"
	case "alerts/template":
		if rep.Summary == "template syntax error" {
			return "check:template"
		}
		if rep.Summary == "value used in labels" {
			return "check:template:value"
		}
	case "alerts/for":
		if rep.Summary == "invalid duration" {
			return "check:for"
		}
	}
	return "other:" + rep.Reporter + ":" + rep.Severity
}

type c01Obs struct {
	Codes   []string `json:"codes"`   // sorted distinct stage codes of reports with severity >= Bug
	Clean   bool     `json:"clean"`   // no report of severity Bug or Fatal, no pipeline error
	NBug    int      `json:"nbug"`    // number of Bug/Fatal reports
	Entries int      `json:"entries"` // entries discovery produced
	Panic   string   `json:"panic"`
	Err     string   `json:"err"`
	PromOK  bool     `json:"prom_ok"`
	PromErr []string `json:"prom_err"`
}

var c01Mu sync.Mutex

func c01Scheme(names string) model.ValidationScheme {
	if names == "legacy" {
		return model.LegacyValidation
	}
	return model.UTF8Validation
}

// c01Run gives the same bytes to pint (strict, offline, default config) and to rulefmt.
// model.NameValidationScheme is a process-wide global written by pint's parser: callers batch by scheme.
func c01Run(dir string, content []byte, names string, thanos ...bool) c01Obs {
	res := pipe.Lint(dir, map[string][]byte{"rules.yml": content}, []string{"rules.yml"},
		pipe.Opts{Strict: true, Offline: true, Command: "lint", UTF8: names != "legacy", Thanos: len(thanos) > 0 && thanos[0]})
	o := c01Obs{Codes: []string{}, PromErr: []string{}, Entries: len(res.Entries), Err: res.FindErr + res.CfgErr}
	if res.Panic != "" {
		o.Panic = strings.SplitN(res.Panic, "\n", 2)[0]
	}
	seen := map[string]bool{}
	for _, r := range res.Reports {
		if r.SevN < 2 { // checks.Bug
			continue
		}
		o.NBug++
		kind := ""
		if r.Entry < len(res.Entries) {
			kind = res.Entries[r.Entry].Kind
		}
		c := c01Code(r, kind)
		if !seen[c] {
			seen[c] = true
			o.Codes = append(o.Codes, c)
		}
	}
	sort.Strings(o.Codes)
	o.Clean = o.NBug == 0 && o.Panic == "" && o.Err == ""
	model.NameValidationScheme = c01Scheme(names)
	_, errs := rulefmt.Parse(content, false)
	o.PromOK = len(errs) == 0
	for _, e := range errs {
		s := e.Error()
		if len(s) > 8000 {
			s = s[:8000]
		}
		o.PromErr = append(o.PromErr, s)
	}
	return o
}

var c01PintComment = regexp.MustCompile(`#[^\n]*pint`)

func init() {
	register("exec-c01", func(in []json.RawMessage, out *Out, args []string) error {
		type rec = map[string]any
		docs := make([]schemadoc.Doc, len(in))
		for i := range in {
			if err := json.Unmarshal(in[i], &docs[i]); err != nil {
				return fmt.Errorf("case %d: %w", i+1, err)
			}
		}
		results := make([]rec, len(in))
		for _, names := range []string{"utf8", "legacy"} {
			var idx []int
			for i, d := range docs {
				if (d.Names == "legacy") == (names == "legacy") {
					idx = append(idx, i)
				}
			}
			parallel(len(idx), runtime.NumCPU(), func(k int) {
				i := idx[k]
				dir, _ := os.MkdirTemp(shmDir(), "c01-")
				defer os.RemoveAll(dir)
				content := schemadoc.Render(docs[i])
				o := c01Run(dir, content, names, docs[i].Schema == "thanos")
				results[i] = rec{"ev": "Doc", "id": i + 1, "doc": docs[i], "yaml": strings.ToValidUTF8(string(content), "\uFFFD"), "obs": o}
			})
		}
		for _, r := range results {
			out.Write(r)
		}
		return nil
	})

	// exec-c01-mut  -in bases.ndjson(-of {"name","yaml"})  -out trace  N  sidefile
	register("exec-c01-mut", func(in []json.RawMessage, out *Out, args []string) error {
		if len(args) < 2 {
			return fmt.Errorf("usage: exec-c01-mut -in bases -out trace N sidefile")
		}
		n, _ := strconv.Atoi(args[0])
		side, err := os.Create(args[1])
		if err != nil {
			return err
		}
		defer side.Close()
		seed, _ := strconv.ParseInt(os.Getenv("VERIF_SEED"), 10, 64)
		type base struct {
			Name string `json:"name"`
			Yaml string `json:"yaml"`
		}
		bases := make([]base, len(in))
		for i := range in {
			if err := json.Unmarshal(in[i], &bases[i]); err != nil {
				return err
			}
		}
		if len(bases) == 0 {
			return fmt.Errorf("no base documents")
		}
		type rec = map[string]any
		results := make([]rec, n)
		sides := make([]string, n)
		parallel(n, runtime.NumCPU(), func(i int) {
			rng := rand.New(rand.NewSource(seed*1000003 + int64(i)))
			b := bases[rng.Intn(len(bases))]
			content, ops := Mutate(rng, []byte(b.Yaml), 1+rng.Intn(3))
			r := rec{"ev": "Mut", "id": i + 1, "base": b.Name, "ops": strings.Join(ops, "+"), "skipped": false,
				"clean": false, "prom_ok": false, "nbug": 0, "panic": ""}
			if c01PintComment.Match(content) {
				r["skipped"] = true
				results[i] = r
				return
			}
			dir, _ := os.MkdirTemp(shmDir(), "c01m-")
			defer os.RemoveAll(dir)
			o := c01Run(dir, content, "utf8")
			r["clean"], r["prom_ok"], r["nbug"], r["panic"] = o.Clean, o.PromOK, o.NBug, o.Panic
			if o.Clean {
				perr := ""
				if len(o.PromErr) > 0 {
					perr = o.PromErr[0]
				}
				sb, _ := json.Marshal(rec{"id": i + 1, "yaml_b64": base64.StdEncoding.EncodeToString(content), "prom_err": perr})
				sides[i] = string(sb)
			}
			results[i] = r
		})
		for i, r := range results {
			out.Write(r)
			if sides[i] != "" {
				fmt.Fprintln(side, sides[i])
			}
		}
		return nil
	})

	// exec-c01-raw: run given concrete documents ({"name","yaml_b64"|"yaml"}) - used by --replay.
	register("exec-c01-raw", func(in []json.RawMessage, out *Out, args []string) error {
		for i := range in {
			var b struct {
				Name string `json:"name"`
				Yaml string `json:"yaml"`
				B64  string `json:"yaml_b64"`
			}
			if err := json.Unmarshal(in[i], &b); err != nil {
				return err
			}
			content := []byte(b.Yaml)
			if b.B64 != "" {
				content, _ = base64.StdEncoding.DecodeString(b.B64)
			}
			dir, _ := os.MkdirTemp(shmDir(), "c01r-")
			o := c01Run(dir, content, "utf8")
			os.RemoveAll(dir)
			out.Write(map[string]any{"ev": "Mut", "id": i + 1, "base": b.Name, "ops": "replay", "skipped": c01PintComment.Match(content),
				"clean": o.Clean, "prom_ok": o.PromOK, "nbug": o.NBug, "panic": o.Panic, "obs": o})
		}
		return nil
	})
}
