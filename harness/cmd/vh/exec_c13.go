package main

// exec-c13: EXEC for the RangeSlice family (C13).
// Every abstract case (step, start, end, presence cells per series, arrival order of the slice
// responses) is run through the REAL promapi.Prometheus.RangeQuery against promfake in presence mode.
// The fake holds every query_range request until the case's arrival order says it may answer, so the
// collection loop of RangeQuery sees the slice results in that order. Recorded per case:
//   Query   - the case and the slices the client actually asked for (offsets from the base instant)
//   Respond - one per released slice response, in release order (index into the recorded slices)
//   Result  - the Series.Ranges the client returned (or its error)
// No oracle logic here: TLC (RangeSliceTrace) judges the records.

import (
	"context"
	"encoding/json"
	"fmt"
	"os"
	"runtime"
	"strconv"
	"sync/atomic"
	"time"

	"github.com/prometheus/client_golang/prometheus"

	"github.com/cloudflare/pint/internal/promapi"
	"github.com/cloudflare/pint/verifharness/promfake"
)

type c13Slice struct {
	S int64 `json:"s"`
	E int64 `json:"e"`
}
type c13Query struct {
	Start  int64      `json:"start"`
	End    int64      `json:"end"`
	Slices []c13Slice `json:"slices"`
	Miss   []int      `json:"miss"`  // slices (1-based) the model expects to be requested (not cached)
	Order  []int      `json:"order"` // arrival order of the slice results
}
type c13Case struct {
	Step    int64      `json:"step"`
	Unit    int64      `json:"unit"`
	Size    int64      `json:"size"`
	Pres    [][]int64  `json:"pres"`
	Queries []c13Query `json:"queries"`
}
type c13Range struct {
	Fp int   `json:"fp"`
	S  int64 `json:"s"`
	E  int64 `json:"e"`
}

// absolute window for RangeQuery (same shape as the absoluteRange of pint's own range_test.go)
type c13Times struct {
	start, end time.Time
	step       time.Duration
	id         string
}

func (a c13Times) Start() time.Time    { return a.start }
func (a c13Times) End() time.Time      { return a.end }
func (a c13Times) Dur() time.Duration  { return a.end.Sub(a.start) }
func (a c13Times) Step() time.Duration { return a.step }
func (a c13Times) String() string      { return a.id }

const (
	c13T0        = int64(1767225600) // 2026-01-01T00:00:00Z
	c13ZeroToUnx = int64(62135596800) // seconds from Go's zero Time to the Unix epoch (Time.Round works from there)
	c13Conc      = 16
)

// base instant: first instant >= T0 that Time.Round(size) regards as a multiple of size
func c13Base(size int64) int64 {
	if size <= 0 {
		return c13T0
	}
	r := (c13T0 + c13ZeroToUnx) % size
	if r == 0 {
		return c13T0
	}
	return c13T0 + size - r
}

var c13Reg = prometheus.NewRegistry()

func c13Running(name string) float64 {
	mfs, err := c13Reg.Gather()
	if err != nil {
		return -1
	}
	for _, mf := range mfs {
		if mf.GetName() != "pint_prometheus_queries_running" {
			continue
		}
		for _, m := range mf.GetMetric() {
			ok := false
			for _, l := range m.GetLabel() {
				if l.GetName() == "name" && l.GetValue() == name {
					ok = true
				}
			}
			if ok {
				return m.GetGauge().GetValue()
			}
		}
	}
	return 0
}

func init() {
	register("exec-c13", func(in []json.RawMessage, out *Out, args []string) error {
		promapi.RegisterMetrics(c13Reg)
		srv, err := promfake.NewServer()
		if err != nil {
			return err
		}
		defer srv.Close()
		workers := runtime.NumCPU()
		if workers > 16 {
			workers = 16
		}
		if v, err := strconv.Atoi(os.Getenv("C13_WORKERS")); err == nil && v > 0 {
			workers = v
		}
		type slot struct {
			name   string
			tenant *promfake.Tenant
			fg     *promapi.FailoverGroup
		}
		slots := make(chan *slot, workers)
		var all []*slot
		for w := 0; w < workers; w++ {
			name := fmt.Sprintf("w%d", w)
			s := &slot{name: name, tenant: srv.Tenant(name)}
			prom := promapi.NewPrometheus(name, srv.URL(name), "", nil, 30*time.Second, c13Conc, 100000, nil)
			// the real client as pint builds it: a failover group owns the query cache of its servers
			s.fg = promapi.NewFailoverGroup(name, srv.URL(name), []*promapi.Prometheus{prom}, true, "up", nil, nil, nil)
			s.fg.StartWorkers(c13Reg)
			slots <- s
			all = append(all, s)
		}
		defer func() {
			for _, s := range all {
				s.fg.Close(c13Reg)
			}
		}()
		out.Write(map[string]any{"ev": "Probe", "mirror": c13ProbeMirror()})
		var failed atomic.Value
		recs := make([][]any, len(in)) // per case, written in case order afterwards (deterministic trace)
		parallel(len(in), workers, func(i int) {
			s := <-slots
			defer func() { slots <- s }()
			var c c13Case
			if err := json.Unmarshal(in[i], &c); err != nil {
				failed.Store(fmt.Errorf("case %d: %w", i+1, err))
				return
			}
			c13Run(i+1, &c, s.name, s.tenant, s.fg, func(v any) { recs[i] = append(recs[i], v) })
		})
		for _, rs := range recs {
			for _, r := range rs {
				out.Write(r)
			}
		}
		if e := failed.Load(); e != nil {
			return e.(error)
		}
		return nil
	})
}

// c13ProbeMirror asks the real promapi.Overlaps whether it merges a range that lies inside the other one
// and shares its start / end (the two mirror cases of fixes/C13-overlaps-mirror-cases.patch). The answer
// only selects the variant of the impl-shaped model (constant Mirror); it is never part of a verdict.
func c13ProbeMirror() bool {
	t := func(s int64) time.Time { return time.Unix(c13T0+s, 0) }
	big := promapi.MetricTimeRange{Start: t(0), End: t(8999), Fingerprint: 1}
	endAligned := promapi.MetricTimeRange{Start: t(6000), End: t(8999), Fingerprint: 1}
	startAligned := promapi.MetricTimeRange{Start: t(0), End: t(2999), Fingerprint: 1}
	_, ok1 := promapi.Overlaps(endAligned, big, 3000*time.Second)
	_, ok2 := promapi.Overlaps(startAligned, big, 3000*time.Second)
	return ok1 && ok2
}

func c13Spin(d time.Duration) {
	for t := time.Now(); time.Since(t) < d; {
		runtime.Gosched()
	}
}

func c13Run(id int, c *c13Case, name string, tenant *promfake.Tenant, fg *promapi.FailoverGroup, emit func(any)) {
	base := c13Base(c.Size)
	series := make([]promfake.PSeries, len(c.Pres))
	for f := range c.Pres {
		cells := make(map[int64]bool, len(c.Pres[f]))
		for _, x := range c.Pres[f] {
			cells[x] = true
		}
		series[f] = promfake.PSeries{Labels: map[string]string{"__name__": "m", "s": fmt.Sprintf("s%d", f+1)}, Cells: cells}
	}
	pm := promfake.NewPresence(base*1000, c.Unit*1000, series, true)
	tenant.Set(pm)
	// the cache lives as long as the client: a fresh expression per case = a fresh cache for the session
	expr := fmt.Sprintf("m_%d_%s", id, os.Getenv("VERIF_SEED"))
	for qi := range c.Queries {
		if !c13Query1(id, qi+1, c, &c.Queries[qi], base, expr, name, pm, fg, emit) {
			return
		}
	}
}

type c13Res struct {
	r   *promapi.RangeQueryResult
	err error
}

func c13Query1(id, qn int, c *c13Case, q *c13Query, base int64, expr, name string, pm *promfake.Presence,
	fg *promapi.FailoverGroup, emit func(any),
) bool {
	seen := len(pm.Requests())
	expect := len(q.Miss)
	if expect > c13Conc {
		expect = c13Conc
	}
	pm.SetHold(expect > 0) // nothing expected at the server: nothing to order, answer stragglers at once
	done := make(chan c13Res, 1)
	params := c13Times{start: time.Unix(base+q.Start, 0), end: time.Unix(base+q.End, 0),
		step: time.Duration(c.Step) * time.Second, id: fmt.Sprintf("case%d/%d", id, qn)}
	go func() {
		r, err := fg.RangeQuery(context.Background(), expr, params)
		done <- c13Res{r, err}
	}()

	var reqs []*promfake.RangeReq
	if expect > 0 {
		reqs = pm.WaitRequests(seen+expect, 5*time.Second)[seen:]
		if len(reqs) != len(q.Miss) {
			// not what the model expects: give stragglers a moment so that the record is complete
			c13Spin(20 * time.Millisecond)
			reqs = pm.Requests()[seen:]
		}
	}
	sorted := promfake.SortedByStart(reqs)
	idx := map[*promfake.RangeReq]int{}
	for i, r := range sorted {
		idx[r] = i + 1
	}
	// release in the prescribed order (matching model slice k to the request with that start), then the rest
	var order []*promfake.RangeReq
	used := map[*promfake.RangeReq]bool{}
	for _, k := range q.Order {
		if k < 1 || k > len(q.Slices) {
			continue
		}
		want := (base + q.Slices[k-1].S) * 1000
		for _, r := range sorted {
			if !used[r] && r.StartMs == want {
				used[r] = true
				order = append(order, r)
				break
			}
		}
	}
	for _, r := range reqs {
		if !used[r] {
			order = append(order, r)
		}
	}
	var released []*promfake.RangeReq
	remaining := len(order)
	for _, r := range order {
		pm.Release(r)
		remaining--
		// the client has the response; wait until its worker is through with it, so that the next
		// response cannot overtake this one on the way to the results channel
		deadline := time.Now().Add(50 * time.Millisecond)
		for c13Running(name) > float64(remaining) && time.Now().Before(deadline) {
			runtime.Gosched()
		}
		c13Spin(40 * time.Microsecond) // time.Sleep has ~1 ms granularity here
		released = append(released, r)
	}
	pm.SetHold(false)
	var rr c13Res
	select {
	case rr = <-done:
	case <-time.After(20 * time.Second):
		emit(map[string]any{"ev": "Hang", "id": id})
		return false
	}
	// The records are written only now, from everything the server saw for this query: a request that turned
	// up late (after the wait above gave up) is part of the recorded slices, so the verdict never works from
	// an incomplete picture; it just has no Respond record (binding only).
	all := pm.Requests()[seen:]
	late := len(all) - len(reqs)
	sorted = promfake.SortedByStart(all)
	idx = map[*promfake.RangeReq]int{}
	for i, r := range sorted {
		idx[r] = i + 1
	}
	obs := make([]c13Slice, len(sorted))
	exact := true
	for i, r := range sorted {
		obs[i] = c13Slice{S: r.StartMs/1000 - base, E: r.EndMs/1000 - base}
		if r.StartMs%1000 != 0 || r.EndMs%1000 != 0 || r.StepMs != c.Step*1000 {
			exact = false
		}
	}
	emit(map[string]any{"ev": "Query", "id": id, "q": qn, "step": c.Step, "start": q.Start, "end": q.End, "unit": c.Unit,
		"pres": c.Pres, "slices": obs, "exact": exact})
	for _, r := range released {
		emit(map[string]any{"ev": "Respond", "id": id, "k": idx[r]})
	}
	ranges := []c13Range{}
	errs := ""
	if rr.err != nil {
		errs = rr.err.Error()
	} else {
		for _, r := range rr.r.Series.Ranges {
			fp := 0
			if v := r.Labels.Get("s"); len(v) > 1 {
				fp, _ = strconv.Atoi(v[1:])
			}
			ranges = append(ranges, c13Range{Fp: fp, S: r.Start.Unix() - base, E: r.End.Unix() - base})
		}
	}
	emit(map[string]any{"ev": "Result", "id": id, "q": qn, "ranges": ranges, "err": errs, "late": late})
	return true
}
