package main

// exec-c13: EXEC for the RangeSlice family (C13).
// Every abstract case (step, start, end, presence cells per series, arrival order of the slice
// responses) is run through the REAL promapi.Prometheus.RangeQuery against promfake in presence mode.
// The fake holds every query_range request until the case's arrival order says it may answer, so the
// collection loop of RangeQuery sees the slice results in that order. Recorded per case:
//   Query   - the case and the slices the client actually asked for (offsets from the base instant)
//   Respond - one per released slice response, in release order (index into the recorded slices)
//   Result  - the Series.Ranges the client returned (or its error)
// No oracle logic here: TLC (RangeSliceTrace) judges the records.

import (
	"context"
	"encoding/json"
	"fmt"
	"os"
	"runtime"
	"strconv"
	"sync/atomic"
	"time"

	"github.com/prometheus/client_golang/prometheus"
	"github.com/prometheus/prometheus/model/labels"

	"github.com/cloudflare/pint/internal/promapi"
	"github.com/cloudflare/pint/verifharness/promfake"
)

type c13Slice struct {
	S int64 `json:"s"`
	E int64 `json:"e"`
}
type c13Query struct {
	Start  int64      `json:"start"`
	End    int64      `json:"end"`
	Dur    int64      `json:"dur"` // RangeQueryTimes.Dur(): end - start for an absolute window, less for a now-based one
	Slices []c13Slice `json:"slices"`
	Miss   []int      `json:"miss"`  // slices (1-based) the model expects to be requested (not cached)
	Order  []int      `json:"order"` // arrival order of the slice results
}
type c13Case struct {
	Step    int64      `json:"step"`
	Unit    int64      `json:"unit"`
	Size    int64      `json:"size"`
	Pres    [][]int64  `json:"pres"`
	Queries []c13Query `json:"queries"`
}
type c13Range struct {
	Fp int   `json:"fp"`
	S  int64 `json:"s"`
	E  int64 `json:"e"`
}

// absolute window for RangeQuery (same shape as the absoluteRange of pint's own range_test.go)
// Dur() is given separately: pint's NewRelativeRange reads the clock once for Start() and once for End(), so End()
// may be later than Start()+Dur(); the cases prescribe that skew instead of leaving it to the wall clock.
type c13Times struct {
	start, end time.Time
	step, dur  time.Duration
	id         string
}

func (a c13Times) Start() time.Time    { return a.start }
func (a c13Times) End() time.Time      { return a.end }
func (a c13Times) Dur() time.Duration  { return a.dur }
func (a c13Times) Step() time.Duration { return a.step }
func (a c13Times) String() string      { return a.id }

const (
	c13T0        = int64(1767225600)  // 2026-01-01T00:00:00Z
	c13ZeroToUnx = int64(62135596800) // seconds from Go's zero Time to the Unix epoch (Time.Round works from there)
	c13Conc      = 16
)

// base instant: first instant >= T0 that Time.Round(size) regards as a multiple of size
func c13Base(size int64) int64 {
	if size <= 0 {
		return c13T0
	}
	r := (c13T0 + c13ZeroToUnx) % size
	if r == 0 {
		return c13T0
	}
	return c13T0 + size - r
}

var c13Reg = prometheus.NewRegistry()

// c13UseGate: hook H3 is compiled in (build tag h3) - arrival orders are enforced exactly at the client's "got" gate
var c13UseGate bool

func c13Running(name string) float64 {
	mfs, err := c13Reg.Gather()
	if err != nil {
		return -1
	}
	for _, mf := range mfs {
		if mf.GetName() != "pint_prometheus_queries_running" {
			continue
		}
		for _, m := range mf.GetMetric() {
			ok := false
			for _, l := range m.GetLabel() {
				if l.GetName() == "name" && l.GetValue() == name {
					ok = true
				}
			}
			if ok {
				return m.GetGauge().GetValue()
			}
		}
	}
	return 0
}

func init() {
	register("exec-c13", func(in []json.RawMessage, out *Out, args []string) error {
		promapi.RegisterMetrics(c13Reg)
		srv, err := promfake.NewServer()
		if err != nil {
			return err
		}
		defer srv.Close()
		workers := runtime.NumCPU()
		if workers > 16 {
			workers = 16
		}
		if v, err := strconv.Atoi(os.Getenv("C13_WORKERS")); err == nil && v > 0 {
			workers = v
		}
		type slot struct {
			name   string
			tenant *promfake.Tenant
			fg     *promapi.FailoverGroup
		}
		slots := make(chan *slot, workers)
		var all []*slot
		for w := 0; w < workers; w++ {
			name := fmt.Sprintf("w%d", w)
			s := &slot{name: name, tenant: srv.Tenant(name)}
			prom := promapi.NewPrometheus(name, srv.URL(name), "", nil, 30*time.Second, c13Conc, 100000, nil)
			// the real client as pint builds it: a failover group owns the query cache of its servers
			s.fg = promapi.NewFailoverGroup(name, srv.URL(name), []*promapi.Prometheus{prom}, true, "up", nil, nil, nil)
			s.fg.StartWorkers(c13Reg)
			slots <- s
			all = append(all, s)
		}
		defer func() {
			for _, s := range all {
				s.fg.Close(c13Reg)
			}
		}()
		c13UseGate = c13GateAvailable() && os.Getenv("C13_NO_GATE") == ""
		if c13UseGate {
			c13InstallTracer()
		}
		out.Write(map[string]any{"ev": "Probe", "mirror": c13ProbeMirror(), "gate": c13UseGate})
		if len(in) > 0 {
			env, err := c13EnvProbe(in)
			if err != nil {
				return err
			}
			out.Write(env)
		}
		var failed atomic.Value
		recs := make([][]any, len(in)) // per case, written in case order afterwards (deterministic trace)
		parallel(len(in), workers, func(i int) {
			s := <-slots
			defer func() { slots <- s }()
			var c c13Case
			if err := json.Unmarshal(in[i], &c); err != nil {
				failed.Store(fmt.Errorf("case %d: %w", i+1, err))
				return
			}
			c13Run(i+1, &c, s.name, s.tenant, s.fg, func(v any) { recs[i] = append(recs[i], v) })
		})
		for _, rs := range recs {
			for _, r := range rs {
				out.Write(r)
			}
		}
		if e := failed.Load(); e != nil {
			return e.(error)
		}
		return nil
	})
}

// c13ProbeMirror asks the real promapi.Overlaps whether it merges a range that lies inside the other one
// and shares its start / end (the two mirror cases of fixes/C13-overlaps-mirror-cases.patch). The answer
// only selects the variant of the impl-shaped model (constant Mirror); it is never part of a verdict.
func c13ProbeMirror() bool {
	t := func(s int64) time.Time { return time.Unix(c13T0+s, 0) }
	big := promapi.MetricTimeRange{Start: t(0), End: t(8999), Fingerprint: 1}
	endAligned := promapi.MetricTimeRange{Start: t(6000), End: t(8999), Fingerprint: 1}
	startAligned := promapi.MetricTimeRange{Start: t(0), End: t(2999), Fingerprint: 1}
	_, ok1 := promapi.Overlaps(endAligned, big, 3000*time.Second)
	_, ok2 := promapi.Overlaps(startAligned, big, 3000*time.Second)
	return ok1 && ok2
}

// c13EnvProbe records what the real time package and the real PromQL engine do where the model assumes something
// (RangeSlice.tla, E3 / E4): Time.Round of base+offset for the slice sizes and offsets of the cases, (2h).Round(step)
// for their steps, and the evaluation timestamps of engine range queries whose start is not a multiple of the step.
func c13EnvProbe(in []json.RawMessage) (map[string]any, error) {
	type rnd struct {
		T int64 `json:"t"`
		D int64 `json:"d"`
		R int64 `json:"r"`
	}
	type dur struct {
		St int64 `json:"st"`
		R  int64 `json:"r"`
	}
	type grid struct {
		S  int64   `json:"s"`
		E  int64   `json:"e"`
		St int64   `json:"st"`
		Ts []int64 `json:"ts"`
	}
	rounds, durs, grids := []rnd{}, []dur{}, []grid{}
	seenR, seenD := map[[2]int64]bool{}, map[int64]bool{}
	for _, raw := range in {
		var c c13Case
		if err := json.Unmarshal(raw, &c); err != nil {
			return nil, err
		}
		if !seenD[c.Step] {
			seenD[c.Step] = true
			durs = append(durs, dur{c.Step, int64((2 * time.Hour).Round(time.Duration(c.Step) * time.Second).Seconds())})
		}
		if c.Size <= 0 || len(rounds) >= 4000 {
			continue
		}
		base := c13Base(c.Size)
		for _, q := range c.Queries {
			k := [2]int64{q.Start, c.Size}
			if seenR[k] {
				continue
			}
			seenR[k] = true
			r := time.Unix(base+q.Start, 0).Round(time.Duration(c.Size) * time.Second)
			rounds = append(rounds, rnd{q.Start, c.Size, r.Unix() - base})
		}
	}
	be := promfake.NewEngineBackend(promfake.NewDB())
	for _, g := range [][3]int64{{7, 100, 30}, {61, 7261, 420}, {3599, 10801, 3600}} {
		t0 := time.Unix(c13T0, 0)
		m, err := be.Range(context.Background(), "vector(1)", t0.Add(time.Duration(g[0])*time.Second),
			t0.Add(time.Duration(g[1])*time.Second), time.Duration(g[2])*time.Second)
		if err != nil {
			return nil, err
		}
		ts := []int64{}
		for _, v := range m {
			for _, x := range v {
				ts = append(ts, x/1000-c13T0)
			}
		}
		grids = append(grids, grid{g[0], g[1], g[2], ts})
	}
	return map[string]any{"ev": "EnvProbe", "rounds": rounds, "durs": durs, "grids": grids}, nil
}

func init() {
	// probe-c13-bigstep: does RangeQuery return for a step above 4h? Without the slice-size guard it never does and
	// eats memory, so the driver runs this sub-command in a child process under a memory limit and a timeout.
	register("probe-c13-bigstep", func(_ []json.RawMessage, out *Out, _ []string) error {
		srv, err := promfake.NewServer()
		if err != nil {
			return err
		}
		defer srv.Close()
		srv.Tenant("p").Set(promfake.NewPresence(c13T0*1000, 18000*1000, nil, false))
		prom := promapi.NewPrometheus("p", srv.URL("p"), "", nil, 10*time.Second, 4, 1000, nil)
		prom.StartWorkers()
		defer prom.Close()
		t0 := time.Unix(c13T0, 0)
		_, err = prom.RangeQuery(context.Background(), "m", c13Times{start: t0, end: t0.Add(11 * time.Hour), dur: 11 * time.Hour,
			step: 5 * time.Hour, id: "bigstep"})
		out.Write(map[string]any{"ev": "BigStep", "returned": true, "err": fmt.Sprint(err)})
		return nil
	})
}

func c13Spin(d time.Duration) {
	for t := time.Now(); time.Since(t) < d; {
		runtime.Gosched()
	}
}

func c13Run(id int, c *c13Case, name string, tenant *promfake.Tenant, fg *promapi.FailoverGroup, emit func(any)) {
	base := c13Base(c.Size)
	series := make([]promfake.PSeries, len(c.Pres))
	for f := range c.Pres {
		cells := make(map[int64]bool, len(c.Pres[f]))
		for _, x := range c.Pres[f] {
			cells[x] = true
		}
		series[f] = promfake.PSeries{Labels: c13Labels(f + 1), Cells: cells}
	}
	pm := promfake.NewPresence(base*1000, c.Unit*1000, series, true)
	tenant.Set(pm)
	// the cache lives as long as the client: a fresh expression per case = a fresh cache for the session
	expr := fmt.Sprintf("m_%d_%s", id, os.Getenv("VERIF_SEED"))
	ck2start := map[string]int64{} // cache key -> slice start, learned from the requests of this session
	for qi := range c.Queries {
		if !c13Query1(id, qi+1, c, &c.Queries[qi], base, expr, name, pm, fg, ck2start, emit) {
			return
		}
	}
}

type c13Res struct {
	r   *promapi.RangeQueryResult
	err error
}

// c13Labels: the label set of series f (1-based). The series do NOT share their label names: series 2 carries one more
// label ("a") than the others, and it is the one Prometheus puts first in a response (labels.Compare: "a" < "s"), while
// pint's own order (fewer labels first) keeps the series in id order. A client that lets label names leak from one series
// of a response to the next gives a series different identities in different slices.
func c13Labels(f int) map[string]string {
	m := map[string]string{"__name__": "m", "s": fmt.Sprintf("s%d", f)}
	if f == 2 {
		m["a"] = "1"
	}
	return m
}

// c13SeriesOf maps a returned label set back to the series of the case whose FULL label set it equals (0 = none).
func c13SeriesOf(ls labels.Labels, n int) int {
	for f := 1; f <= n; f++ {
		if labels.Equal(ls, labels.FromMap(c13Labels(f))) {
			return f
		}
	}
	return 0
}

// model slice (1-based) that starts at startMs; 0 = none
func c13SliceIndex(q *c13Query, base, startMs int64) int {
	for i, sl := range q.Slices {
		if (base+sl.S)*1000 == startMs {
			return i + 1
		}
	}
	return 0
}

func c13Query1(id, qn int, c *c13Case, q *c13Query, base int64, expr, name string, pm *promfake.Presence,
	fg *promapi.FailoverGroup, ck2start map[string]int64, emit func(any),
) bool {
	seen := len(pm.Requests())
	if q.Dur == 0 {
		q.Dur = q.End - q.Start
	}
	params := c13Times{start: time.Unix(base+q.Start, 0), end: time.Unix(base+q.End, 0), dur: time.Duration(q.Dur) * time.Second,
		step: time.Duration(c.Step) * time.Second, id: fmt.Sprintf("case%d/%d", id, qn)}
	gated := c13UseGate
	var released []int // model slice indices (0 = unknown) in the order their results were let through
	var rr c13Res
	hang := false
	if gated {
		rr, released, hang = c13RunGated(q, base, expr, params, pm, fg, ck2start)
	} else {
		rr, released, hang = c13RunHeld(q, base, expr, name, params, pm, fg, seen)
	}
	if hang {
		emit(map[string]any{"ev": "Hang", "id": id})
		return false
	}
	// The records are written only now, from everything the server saw for this query: a request that turned
	// up late is part of the recorded slices, so the verdict never works from an incomplete picture.
	all := pm.Requests()[seen:]
	sorted := promfake.SortedByStart(all)
	obs := make([]c13Slice, len(sorted))
	exact := true
	for i, r := range sorted {
		obs[i] = c13Slice{S: r.StartMs/1000 - base, E: r.EndMs/1000 - base}
		if r.StartMs%1000 != 0 || r.EndMs%1000 != 0 || r.StepMs != c.Step*1000 {
			exact = false
		}
	}
	emit(map[string]any{"ev": "Query", "id": id, "q": qn, "step": c.Step, "start": q.Start, "end": q.End, "dur": q.Dur,
		"unit": c.Unit, "pres": c.Pres, "slices": obs, "exact": exact, "gated": gated})
	for _, k := range released {
		emit(map[string]any{"ev": "Respond", "id": id, "k": k})
	}
	ranges := []c13Range{}
	errs := ""
	if rr.err != nil {
		errs = rr.err.Error()
	} else {
		for _, r := range rr.r.Series.Ranges {
			fp := c13SeriesOf(r.Labels, len(c.Pres)) // 0 = a label set no series of the case has
			ranges = append(ranges, c13Range{Fp: fp, S: r.Start.Unix() - base, E: r.End.Unix() - base})
		}
	}
	emit(map[string]any{"ev": "Result", "id": id, "q": qn, "ranges": ranges, "err": errs})
	return true
}

// c13RunGated: exact arrival order through hook H3 (see exec_c13_gate.go).
func c13RunGated(q *c13Query, base int64, expr string, params c13Times, pm *promfake.Presence, fg *promapi.FailoverGroup,
	ck2start map[string]int64,
) (rr c13Res, released []int, hang bool) {
	pm.SetHold(false)
	lockKey := fmt.Sprintf("%s/%s/%s", promapi.APIPathQueryRange, expr, params.String())
	g := c13NewGate(lockKey)
	defer g.close(lockKey)
	done := make(chan c13Res, 1)
	fin := make(chan struct{})
	go func() {
		r, err := fg.RangeQuery(context.Background(), expr, params)
		done <- c13Res{r, err}
		close(fin)
	}()
	g.park(len(q.Slices), fin)
	// cache misses wait at "start": let them through one at a time; the one new request identifies the slice
	for _, j := range g.snapshot() {
		g.mu.Lock()
		isMiss := j.atStart && !j.ended
		g.mu.Unlock()
		if !isMiss {
			continue
		}
		before := len(pm.Requests())
		g.openStart(j)
		g.waitFor(5*time.Second, func() bool { return j.atGot })
		if nr := pm.Requests()[before:]; len(nr) == 1 {
			j.startMs, j.known = nr[0].StartMs, true
			if j.ck != "" {
				ck2start[j.ck] = j.startMs
			}
		}
	}
	g.waitFor(3*time.Second, func() bool {
		for _, j := range g.jobs {
			if !j.atGot {
				return false
			}
		}
		return true
	})
	jobs := g.snapshot()
	for _, j := range jobs { // cache hits: the key was tied to a slice start by an earlier query of the session
		if !j.known && !j.started {
			if st, ok := ck2start[j.ck]; ok && j.ck != "" {
				j.startMs, j.known = st, true
			}
		}
	}
	// open the "got" gates in the prescribed order, then whatever is left
	var order []*c13Job
	used := map[*c13Job]bool{}
	for _, k := range q.Order {
		if k < 1 || k > len(q.Slices) {
			continue
		}
		want := (base + q.Slices[k-1].S) * 1000
		for _, j := range jobs {
			if !used[j] && j.known && j.startMs == want {
				used[j] = true
				order = append(order, j)
				break
			}
		}
	}
	for _, j := range jobs {
		if !used[j] {
			order = append(order, j)
		}
	}
	for _, j := range order {
		g.openGot(j)
		// between the tracer's return and `results <- result` the slice goroutine does nothing else
		c13Spin(40 * time.Microsecond)
		k := 0
		if j.known {
			k = c13SliceIndex(q, base, j.startMs)
		}
		released = append(released, k)
	}
	// every expected result is through; jobs the model did not expect (another slicing) must not stay parked
	g.openAll()
	select {
	case rr = <-done:
	case <-time.After(20 * time.Second):
		return rr, released, true
	}
	return rr, released, false
}

// c13RunHeld: best-effort arrival order without the hook - the fake holds every response and releases them in
// the prescribed order; cache hits cannot be held.
func c13RunHeld(q *c13Query, base int64, expr, name string, params c13Times, pm *promfake.Presence, fg *promapi.FailoverGroup,
	seen int,
) (rr c13Res, released []int, hang bool) {
	expect := len(q.Miss)
	if expect > c13Conc {
		expect = c13Conc
	}
	pm.SetHold(expect > 0) // nothing expected at the server: nothing to order, answer stragglers at once
	done := make(chan c13Res, 1)
	go func() {
		r, err := fg.RangeQuery(context.Background(), expr, params)
		done <- c13Res{r, err}
	}()
	var reqs []*promfake.RangeReq
	if expect > 0 {
		reqs = pm.WaitRequests(seen+expect, 5*time.Second)[seen:]
		if len(reqs) != len(q.Miss) {
			// not what the model expects: give stragglers a moment so that the record is complete
			c13Spin(20 * time.Millisecond)
			reqs = pm.Requests()[seen:]
		}
	}
	sorted := promfake.SortedByStart(reqs)
	var order []*promfake.RangeReq
	used := map[*promfake.RangeReq]bool{}
	for _, k := range q.Order {
		if k < 1 || k > len(q.Slices) {
			continue
		}
		want := (base + q.Slices[k-1].S) * 1000
		for _, r := range sorted {
			if !used[r] && r.StartMs == want {
				used[r] = true
				order = append(order, r)
				break
			}
		}
	}
	for _, r := range reqs {
		if !used[r] {
			order = append(order, r)
		}
	}
	remaining := len(order)
	for _, r := range order {
		pm.Release(r)
		remaining--
		// the client has the response; wait until its worker is through with it, so that the next
		// response cannot overtake this one on the way to the results channel
		deadline := time.Now().Add(50 * time.Millisecond)
		for c13Running(name) > float64(remaining) && time.Now().Before(deadline) {
			runtime.Gosched()
		}
		c13Spin(40 * time.Microsecond) // time.Sleep has ~1 ms granularity here
		released = append(released, c13SliceIndex(q, base, r.StartMs))
	}
	pm.SetHold(false)
	select {
	case rr = <-done:
	case <-time.After(20 * time.Second):
		return rr, released, true
	}
	return rr, released, false
}
