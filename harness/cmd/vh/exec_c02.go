package main

// exec-c02: EXEC for the Pipeline family (C02).
// Every input (a base document verbatim, or a seeded mutation of one) is linted by the real in-process
// pipeline under recover, in four variants (strict/relaxed x default/full configuration, Thanos schema in one),
// and every report set is rendered by the real reporters (console colour on/off, JSON, checkstyle, TeamCity).
// What happened is recorded as the event sequence  Read -> Parsed -> Dispatched -> Reported -> Rendered
// (or Crash / Hang where the code panicked / did not return). No judgement here: counts, line numbers, booleans
// "output is well-formed JSON/XML/TeamCity" are projections.
//
// exec-c02-bin: a slice of the same inputs through the real pint binary (10 s deadline): exit status, panic text.

import (
	"bytes"
	"context"
	"encoding/base64"
	"encoding/json"
	"encoding/xml"
	"fmt"
	"io"
	"math/rand"
	"os"
	"os/exec"
	"path/filepath"
	"regexp"
	"runtime"
	"runtime/debug"
	"strconv"
	"strings"
	"time"

	"github.com/cloudflare/pint/internal/checks"
	"github.com/cloudflare/pint/internal/reporter"

	"github.com/cloudflare/pint/verifharness/pipe"
	"github.com/cloudflare/pint/verifharness/schemadoc"
)

// a configuration enabling every configurable check kind that runs offline
const c02FullConfig = `
rule {
  aggregate ".+" {
    keep     = ["job"]
    severity = "warning"
  }
  aggregate ".+" {
    strip = ["instance"]
  }
  annotation "summary" {
    required = true
    severity = "bug"
  }
  annotation ".*" {
    token = "\\w+"
    value = "[a-z ]+"
  }
  label "severity" {
    required = true
    values   = ["page", "ticket"]
  }
  label "team" {
    value = "[a-z]+"
  }
  for {
    min = "1m"
    max = "1h"
  }
  keep_firing_for {
    min = "1m"
    max = "1h"
  }
  reject ".* +.*" {
    label_keys        = true
    label_values      = true
    annotation_keys   = true
    annotation_values = true
  }
  name "[a-zA-Z:_]+" {
    severity = "bug"
  }
  report {
    comment  = "reported"
    severity = "info"
  }
}
`

type c02Variant struct {
	Name   string
	Strict bool
	Thanos bool
	Full   bool
}

var c02Variants = []c02Variant{
	{"strict-prom-default", true, false, false},
	{"relaxed-prom-default", false, false, false},
	{"strict-thanos-full", true, true, true},
	{"relaxed-thanos-full", false, true, true},
}

// c02Lines counts lines the way pint's reader does (LF) and the way the YAML scanner does (any YAML line break).
func c02Lines(b []byte) (nLF, nYAML int) {
	if len(b) == 0 {
		return 0, 0
	}
	nLF = bytes.Count(b, []byte("\n"))
	if b[len(b)-1] != '\n' {
		nLF++
	}
	brk := 0
	last := 0 // index after the last break
	for i := 0; i < len(b); {
		switch {
		case b[i] == '\r' && i+1 < len(b) && b[i+1] == '\n':
			brk++
			i += 2
			last = i
		case b[i] == '\r' || b[i] == '\n':
			brk++
			i++
			last = i
		case b[i] == 0xC2 && i+1 < len(b) && b[i+1] == 0x85:
			brk++
			i += 2
			last = i
		case b[i] == 0xE2 && i+2 < len(b) && b[i+1] == 0x80 && (b[i+2] == 0xA8 || b[i+2] == 0xA9):
			brk++
			i += 3
			last = i
		default:
			i++
		}
	}
	nYAML = brk
	if last < len(b) {
		nYAML++
	}
	return nLF, nYAML
}

// c02Features names the byte-level traits of an input that the known position-arithmetic defects depend on
// (used only inside violation signatures): altbreak = a YAML line break other than LF / CRLF (bare CR, NEL, LS, PS);
// block = a block scalar header (| or > at the end of a line); esc = a backslash (escape sequences in double-quoted scalars).
func c02Features(b []byte) string {
	var f []string
	alt := false
	for i := 0; i < len(b) && !alt; i++ {
		switch {
		case b[i] == '\r' && (i+1 >= len(b) || b[i+1] != '\n'):
			alt = true
		case b[i] == '\r' && i > 0 && b[i-1] == '\r':
			alt = true
		case b[i] == 0xC2 && i+1 < len(b) && b[i+1] == 0x85:
			alt = true
		case b[i] == 0xE2 && i+2 < len(b) && b[i+1] == 0x80 && (b[i+2] == 0xA8 || b[i+2] == 0xA9):
			alt = true
		}
	}
	if alt {
		f = append(f, "altbreak")
	}
	if c02BlockScalar.Match(b) {
		f = append(f, "block")
	}
	if bytes.IndexByte(b, '\\') >= 0 {
		f = append(f, "esc")
	}
	if len(f) == 0 {
		return "plain"
	}
	return strings.Join(f, "+")
}

var c02BlockScalar = regexp.MustCompile(`(?m)[|>][-+0-9]*[ \t]*(#.*)?\r?$`)

// c02Trail: the file ends with a line break, so an (empty) line n+1 exists for editors and for strings.Split
func c02Trail(b []byte) bool {
	if len(b) == 0 {
		return false
	}
	switch b[len(b)-1] {
	case '\n', '\r':
		return true
	}
	return bytes.HasSuffix(b, []byte("\xc2\x85")) || bytes.HasSuffix(b, []byte("\xe2\x80\xa8")) || bytes.HasSuffix(b, []byte("\xe2\x80\xa9"))
}

var c02TCLine = regexp.MustCompile(`^##teamcity\[\w+( \w+='(?:[^'|\[\]\n\r]|\|['nr|\[\]]|\|0x[0-9A-Fa-f]{4})*')+\]$`)

type c02Out struct {
	Fmt string `json:"fmt"`
	OK  bool   `json:"ok"`  // Submit returned nil and did not panic
	WF  bool   `json:"wf"`  // output is well-formed for its format
	Len int    `json:"len"` // bytes written
	Err string `json:"err"`
}

var c02PanicLoc = regexp.MustCompile(`(?m)^\s+(\S+?/(?:internal|cmd/pint)/\S+\.go):\d+`)

// c02NormPanic: panic value + first frame inside pint, without addresses and line numbers.
func c02NormPanic(msg string) string {
	first := strings.SplitN(msg, "\n", 2)[0]
	first = regexp.MustCompile(`0x[0-9a-f]+`).ReplaceAllString(first, "0x_")
	first = regexp.MustCompile(`\d+`).ReplaceAllString(first, "N")
	loc := ""
	for _, m := range c02PanicLoc.FindAllStringSubmatch(msg, -1) {
		p := m[1]
		if i := strings.Index(p, "/internal/"); i >= 0 {
			p = p[i+1:]
		} else if i := strings.Index(p, "/cmd/pint/"); i >= 0 {
			p = p[i+1:]
		}
		loc = p
		break
	}
	if len(first) > 120 {
		first = first[:120]
	}
	return first + " @" + loc
}

func c02Render(raw []reporter.Report) (outs []c02Out, crash string) {
	var s reporter.Summary
	func() {
		defer func() {
			if r := recover(); r != nil {
				crash = fmt.Sprintf("summary: %v\n%s", r, debug.Stack())
			}
		}()
		s.Report(raw...)
		s.SortReports()
		s.Dedup()
	}()
	if crash != "" {
		return nil, crash
	}
	type mk struct {
		name string
		f    func(w io.Writer) reporter.Reporter
		wf   func(b []byte) bool
	}
	consoleWF := func(b []byte) bool { return len(raw) == 0 || len(b) > 0 }
	all := []mk{
		{"console-color", func(w io.Writer) reporter.Reporter { return reporter.NewConsoleReporter(w, checks.Information, false, false) }, consoleWF},
		{"console-nocolor", func(w io.Writer) reporter.Reporter { return reporter.NewConsoleReporter(w, checks.Information, true, true) }, consoleWF},
		{"json", func(w io.Writer) reporter.Reporter { return reporter.NewJSONReporter(w) }, func(b []byte) bool {
			var v []map[string]any
			return json.Unmarshal(b, &v) == nil && len(v) == len(s.Reports())
		}},
		{"checkstyle", func(w io.Writer) reporter.Reporter { return reporter.NewCheckStyleReporter(w) }, func(b []byte) bool {
			d := xml.NewDecoder(bytes.NewReader(b))
			n := 0
			for {
				t, err := d.Token()
				if err == io.EOF {
					return n == len(s.Reports())
				}
				if err != nil {
					return false
				}
				if se, ok := t.(xml.StartElement); ok && se.Name.Local == "error" {
					n++
				}
			}
		}},
		{"teamcity", func(w io.Writer) reporter.Reporter { return reporter.NewTeamCityReporter(w) }, func(b []byte) bool {
			if len(b) == 0 {
				return len(s.Reports()) == 0
			}
			lines := strings.Split(strings.TrimSuffix(string(b), "\n"), "\n")
			if len(lines) != 7*len(s.Reports()) {
				return false
			}
			for _, l := range lines {
				if !c02TCLine.MatchString(l) {
					return false
				}
			}
			return true
		}},
	}
	for _, m := range all {
		var buf bytes.Buffer
		o := c02Out{Fmt: m.name}
		func() {
			defer func() {
				if r := recover(); r != nil {
					crash = fmt.Sprintf("render %s: %v\n%s", m.name, r, debug.Stack())
				}
			}()
			if err := m.f(&buf).Submit(s); err != nil {
				o.Err = err.Error()
			} else {
				o.OK = true
			}
		}()
		if crash != "" {
			return outs, crash
		}
		o.Len = buf.Len()
		o.WF = o.OK && m.wf(buf.Bytes())
		outs = append(outs, o)
	}
	return outs, ""
}

type c02Rec = map[string]any

// c02One lints one input in one variant and returns its events.
func c02One(id int, name string, content []byte, v c02Variant) []c02Rec {
	nLF, nY := c02Lines(content)
	recs := []c02Rec{{"ev": "Read", "id": id, "v": v.Name, "strict": v.Strict, "input": name, "n": nLF, "ny": nY, "bytes": len(content),
		"trail": c02Trail(content), "feat": c02Features(content)}}
	dir, _ := os.MkdirTemp(shmDir(), "c02-")
	defer os.RemoveAll(dir)
	cfg := ""
	if v.Full {
		cfg = c02FullConfig
	}
	res := pipe.Lint(dir, map[string][]byte{"rules.yml": content}, []string{"rules.yml"},
		pipe.Opts{Strict: v.Strict, Thanos: v.Thanos, Offline: true, Command: "lint", UTF8: true, Config: cfg})
	if res.CfgErr != "" {
		return append(recs, c02Rec{"ev": "HarnessError", "id": id, "msg": "config: " + res.CfgErr})
	}
	entries := []c02Rec{}
	for _, e := range res.Entries {
		entries = append(entries, c02Rec{"kind": e.Kind, "err": e.Err != "", "first": e.First, "last": e.Last, "errline": e.ErrLine, "total": e.TotalLine})
	}
	// a panic inside discovery leaves no entries; inside a check the entries seen so far
	if res.Panic != "" && len(res.RawEntries) == 0 {
		return append(recs, c02Rec{"ev": "Crash", "id": id, "stage": "parse", "sig": c02NormPanic(res.Panic), "msg": firstLines(res.Panic, 30)})
	}
	if res.Panic != "" {
		// entries were discovered; rebuild the Parsed event from the raw entries, then the crash
		entries = entries[:0]
		for _, e := range res.RawEntries {
			kind := "empty"
			switch {
			case e.PathError != nil:
				kind = "patherror"
			case e.Rule.Error.Err != nil:
				kind = "invalid"
			case e.Rule.AlertingRule != nil:
				kind = "alerting"
			case e.Rule.RecordingRule != nil:
				kind = "recording"
			}
			entries = append(entries, c02Rec{"kind": kind, "err": e.PathError != nil || e.Rule.Error.Err != nil, "first": e.Rule.Lines.First,
				"last": e.Rule.Lines.Last, "errline": e.Rule.Error.Line, "total": 0})
		}
		recs = append(recs, c02Rec{"ev": "Parsed", "id": id, "entries": entries, "finderr": res.FindErr})
		return append(recs, c02Rec{"ev": "Crash", "id": id, "stage": "check", "sig": c02NormPanic(res.Panic), "msg": firstLines(res.Panic, 30)})
	}
	recs = append(recs, c02Rec{"ev": "Parsed", "id": id, "entries": entries, "finderr": res.FindErr})
	jobs := []c02Rec{}
	for _, e := range res.Entries {
		cs := e.Checks
		if cs == nil {
			cs = []string{}
		}
		jobs = append(jobs, c02Rec{"entry": e.Idx + 1, "checks": cs})
	}
	recs = append(recs, c02Rec{"ev": "Dispatched", "id": id, "jobs": jobs})
	reps := []c02Rec{}
	for _, r := range res.Reports {
		dl := []int{}
		for _, d := range r.Diags {
			for _, p := range d.Pos {
				dl = append(dl, p.Line)
			}
		}
		reps = append(reps, c02Rec{"entry": r.Entry + 1, "reporter": r.Reporter, "sev": r.Severity, "first": r.First, "last": r.Last,
			"anchor": r.Anchor, "dlines": dl, "ndiag": len(r.Diags)})
	}
	recs = append(recs, c02Rec{"ev": "Reported", "id": id, "reports": reps})
	outs, crash := c02Render(res.Raw)
	if crash != "" {
		return append(recs, c02Rec{"ev": "Crash", "id": id, "stage": "render", "sig": c02NormPanic(crash), "msg": firstLines(crash, 30)})
	}
	return append(recs, c02Rec{"ev": "Rendered", "id": id, "outs": outs})
}

func firstLines(s string, n int) string {
	ls := strings.Split(s, "\n")
	if len(ls) > n {
		ls = ls[:n]
	}
	return strings.Join(ls, "\n")
}

// c02Deadline runs c02One with a deadline; a case that does not return twice in a row is a Hang.
func c02Deadline(id int, name string, content []byte, v c02Variant, d time.Duration) []c02Rec {
	for attempt := 0; attempt < 2; attempt++ {
		ch := make(chan []c02Rec, 1)
		go func() { ch <- c02One(id, name, content, v) }()
		select {
		case r := <-ch:
			return r
		case <-time.After(d):
		}
	}
	nLF, nY := c02Lines(content)
	return []c02Rec{
		{"ev": "Read", "id": id, "v": v.Name, "strict": v.Strict, "input": name, "n": nLF, "ny": nY, "bytes": len(content),
			"trail": c02Trail(content), "feat": c02Features(content)},
		{"ev": "Hang", "id": id, "stage": "lint", "sig": "no result within " + d.String() + " (twice)", "msg": ""},
	}
}

type c02Base struct {
	Name string `json:"name"`
	Yaml string `json:"yaml"`
	B64  string `json:"yaml_b64"`
}

func (b c02Base) bytes() []byte {
	if b.B64 != "" {
		x, _ := base64.StdEncoding.DecodeString(b.B64)
		return x
	}
	return []byte(b.Yaml)
}

// c02Input: input number i of a run: the bases verbatim first, then seeded mutations of random bases.
func c02Input(bases []c02Base, i int, seed int64) (string, []byte) {
	if i < len(bases) {
		return bases[i].Name, bases[i].bytes()
	}
	rng := rand.New(rand.NewSource(seed*7919 + int64(i)))
	b := bases[rng.Intn(len(bases))]
	content, ops := Mutate(rng, b.bytes(), 1+rng.Intn(3))
	return b.Name + "|" + strings.Join(ops, "+"), content
}

func init() {
	// exec-c02 -in bases -out trace N sidefile : N inputs x 4 variants; sidefile gets id -> bytes for every input
	register("exec-c02", func(in []json.RawMessage, out *Out, args []string) error {
		if len(args) < 2 {
			return fmt.Errorf("usage: exec-c02 -in bases -out trace N sidefile")
		}
		n, _ := strconv.Atoi(args[0])
		seed, _ := strconv.ParseInt(os.Getenv("VERIF_SEED"), 10, 64)
		bases := make([]c02Base, len(in))
		for i := range in {
			if err := json.Unmarshal(in[i], &bases[i]); err != nil {
				return err
			}
		}
		if len(bases) == 0 {
			return fmt.Errorf("no base documents")
		}
		if n < 0 {
			n = len(bases)
		}
		results := make([][]c02Rec, n)
		inputs := make([]string, n)
		parallel(n, runtime.NumCPU(), func(i int) {
			name, content := c02Input(bases, i, seed)
			var recs []c02Rec
			for k, v := range c02Variants {
				recs = append(recs, c02Deadline(i*len(c02Variants)+k+1, name, content, v, 10*time.Second)...)
			}
			results[i] = recs
			for _, r := range recs {
				if ev := r["ev"]; ev == "Crash" || ev == "Hang" {
					inputs[i] = base64.StdEncoding.EncodeToString(content)
				}
			}
		})
		side, err := os.Create(args[1])
		if err != nil {
			return err
		}
		defer side.Close()
		for i, rs := range results {
			for _, r := range rs {
				out.Write(r)
			}
			if inputs[i] != "" {
				b, _ := json.Marshal(map[string]any{"input": i, "yaml_b64": inputs[i]})
				fmt.Fprintln(side, string(b))
			}
		}
		return nil
	})

	// exec-c02-bin -in bases -out trace N pintbinary : inputs 0..N-1 (same numbering as exec-c02) through the binary
	register("exec-c02-bin", func(in []json.RawMessage, out *Out, args []string) error {
		if len(args) < 2 {
			return fmt.Errorf("usage: exec-c02-bin -in bases -out trace N pintbinary [stride]")
		}
		n, _ := strconv.Atoi(args[0])
		pint := args[1]
		stride := 1
		if len(args) > 2 {
			stride, _ = strconv.Atoi(args[2])
		}
		workers := runtime.NumCPU()
		if len(args) > 3 {
			workers, _ = strconv.Atoi(args[3])
		}
		seed, _ := strconv.ParseInt(os.Getenv("VERIF_SEED"), 10, 64)
		bases := make([]c02Base, len(in))
		for i := range in {
			if err := json.Unmarshal(in[i], &bases[i]); err != nil {
				return err
			}
		}
		results := make([]c02Rec, n)
		parallel(n, workers, func(k int) {
			i := k * stride
			name, content := c02Input(bases, i, seed)
			if k%11 == 5 {
				// binary-only mutation class: a self-referential anchor
				content = SelfAnchor(rand.New(rand.NewSource(seed*31+int64(k))), content)
				name += "|selfAnchor"
			}
			dir, _ := os.MkdirTemp(shmDir(), "c02b-")
			defer os.RemoveAll(dir)
			os.WriteFile(filepath.Join(dir, "rules.yml"), content, 0o644)
			relaxed := k%2 == 1
			cfg := ""
			if relaxed {
				cfg = "parser {\n  relaxed = [\".*\"]\n}\n"
			}
			if k%4 >= 2 {
				cfg += c02FullConfig
			}
			os.WriteFile(filepath.Join(dir, ".pint.hcl"), []byte(cfg), 0o644)
			argv := []string{"--no-color", "--offline", "--config", ".pint.hcl", "lint"}
			teamcity := k%3 == 0
			owner := k%5 < 2
			schemaThanos := k%7 == 3
			if schemaThanos {
				cfg = strings.Replace(cfg, "parser {\n", "parser {\n  schema = \"thanos\"\n", 1)
				if !relaxed {
					cfg = "parser {\n  schema = \"thanos\"\n}\n" + cfg
				}
				os.WriteFile(filepath.Join(dir, ".pint.hcl"), []byte(cfg), 0o644)
			}
			flags := []string{}
			if teamcity {
				argv = append(argv, "--teamcity")
				flags = append(flags, "teamcity")
			}
			if owner {
				argv = append(argv, "--require-owner")
				flags = append(flags, "require-owner")
			}
			if schemaThanos {
				flags = append(flags, "thanos")
			}
			argv = append(argv, "--checkstyle", "cs.xml", "--json", "out.json", "rules.yml")
			ctx, cancel := context.WithTimeout(context.Background(), 20*time.Second)
			defer cancel()
			cmd := exec.CommandContext(ctx, pint, argv...)
			cmd.Dir = dir
			// GOMAXPROCS=1: a panic in a scan worker runs the deferred wg.Done() first; with several Ps the main
			// goroutine can occasionally finish and exit 0 before the runtime aborts, hiding the crash.
			cmd.Env = append(os.Environ(), "NO_COLOR=1", "GOMAXPROCS=1")
			var stderr bytes.Buffer
			cmd.Stderr = &stderr
			err := cmd.Run()
			exit := 0
			if err != nil {
				if ee, ok := err.(*exec.ExitError); ok {
					exit = ee.ExitCode()
				} else {
					exit = -2
				}
			}
			timedOut := ctx.Err() == context.DeadlineExceeded
			se := stderr.String()
			panicked := strings.Contains(se, "panic:") || strings.Contains(se, "fatal error:") || strings.Contains(se, "goroutine 1 [")
			sig := ""
			msg := ""
			if panicked {
				full := se
				if p := strings.Index(se, "panic:"); p >= 0 {
					full = se[p:]
				} else if p := strings.Index(se, "fatal error:"); p >= 0 {
					full = se[p:]
				}
				msg = firstLines(full, 25)
				if len(full) > 20000 {
					full = full[:20000]
				}
				sig = c02NormPanic(strings.TrimPrefix(full, "panic: "))
			}
			// output files: written at all? well-formed?
			jsonWritten, jsonOK, csWritten, csOK := false, false, false, false
			if b, err := os.ReadFile(filepath.Join(dir, "out.json")); err == nil && len(b) > 0 {
				jsonWritten = true
				var v []map[string]any
				jsonOK = json.Unmarshal(b, &v) == nil
			}
			if b, err := os.ReadFile(filepath.Join(dir, "cs.xml")); err == nil && len(b) > 0 {
				csWritten = true
				d := xml.NewDecoder(bytes.NewReader(b))
				csOK = true
				for {
					if _, err := d.Token(); err == io.EOF {
						break
					} else if err != nil {
						csOK = false
						break
					}
				}
			}
			// TeamCity service messages are written to stderr between the log lines
			tcLines, tcOK := 0, true
			if teamcity {
				for _, l := range strings.Split(se, "\n") {
					if strings.HasPrefix(l, "##teamcity[") {
						tcLines++
						if !c02TCLine.MatchString(l) {
							tcOK = false
						}
					}
				}
			}
			results[k] = c02Rec{"ev": "Bin", "id": k + 1, "input": name, "inputno": i, "relaxed": relaxed, "exit": exit, "panic": panicked,
				"timeout": timedOut, "sig": sig, "msg": msg, "feat": c02Features(content), "flags": strings.Join(flags, "+"),
				"json": c02Rec{"written": jsonWritten, "wf": jsonOK}, "checkstyle": c02Rec{"written": csWritten, "wf": csOK},
				"teamcity": c02Rec{"used": teamcity, "lines": tcLines, "wf": tcOK},
				"yaml_b64": func() string {
					if panicked || timedOut || (exit != 0 && exit != 1) {
						return base64.StdEncoding.EncodeToString(content)
					}
					return ""
				}()}
		})
		for _, r := range results {
			out.Write(r)
		}
		return nil
	})

	// exec-c02-render: abstract StrictSchema documents -> {"name","yaml_b64"} base documents
	register("exec-c02-render", func(in []json.RawMessage, out *Out, args []string) error {
		for i := range in {
			var d schemadoc.Doc
			if err := json.Unmarshal(in[i], &d); err != nil {
				return err
			}
			out.Write(c02Base{Name: fmt.Sprintf("doc:%d", i+1), B64: base64.StdEncoding.EncodeToString(schemadoc.Render(d))})
		}
		return nil
	})

	// exec-c02-input -in bases -out file i j k ... : the bytes of inputs number i, j, k of this seed (for replays)
	register("exec-c02-input", func(in []json.RawMessage, out *Out, args []string) error {
		seed, _ := strconv.ParseInt(os.Getenv("VERIF_SEED"), 10, 64)
		bases := make([]c02Base, len(in))
		for i := range in {
			if err := json.Unmarshal(in[i], &bases[i]); err != nil {
				return err
			}
		}
		for _, a := range args {
			i, err := strconv.Atoi(a)
			if err != nil {
				return err
			}
			name, content := c02Input(bases, i, seed)
			out.Write(map[string]any{"input": i, "name": name, "yaml_b64": base64.StdEncoding.EncodeToString(content)})
		}
		return nil
	})
}
