package main

// Concretisation of the abstract configuration of spec/Dispatch.tla (cfg / flags / match records)
// into .pint.hcl text and command-line flags. Shared by exec-c08, exec-c09 and exec-c07.
// Pure rendering: no decision about what pint should do lives here.

import (
	"crypto/sha256"
	"encoding/hex"
	"encoding/json"
	"fmt"
	"strings"
)

type dProm struct {
	Name string   `json:"name"`
	Tags []string `json:"tags"`
}

type dKind struct {
	Kind string `json:"kind"`
	V    int    `json:"v"`
}

type dRe struct {
	Form string `json:"form"`
	A    string `json:"a"`
	B    string `json:"b"`
}

type dKV struct {
	Set   bool `json:"set"`
	Key   dRe  `json:"key"`
	Value dRe  `json:"value"`
}

type dDur struct {
	Op  string `json:"op"`
	Dur int    `json:"dur"` // seconds
}

type dMatch struct {
	Path       dRe      `json:"path"`
	Name       dRe      `json:"name"`
	Kind       string   `json:"kind"`
	Label      dKV      `json:"label"`
	Annotation dKV      `json:"annotation"`
	For        dDur     `json:"for"`
	Kff        dDur     `json:"kff"`
	Command    string   `json:"command"`
	State      []string `json:"state"`
}

type dBlock struct {
	Kinds   []dKind  `json:"kinds"`
	Enable  []string `json:"enable"`
	Disable []string `json:"disable"`
	Locked  bool     `json:"locked"`
	Match   []dMatch `json:"match"`
	Ignore  []dMatch `json:"ignore"`
	Marker  string   `json:"marker"` // "" none | "report" | K: name "K" {} marker check (MarkerRule in Dispatch.tla)
}

type dCfg struct {
	Proms    []dProm  `json:"proms"`
	Blocks   []dBlock `json:"blocks"`
	Enabled  []string `json:"enabled"`
	Disabled []string `json:"disabled"`
}

type dFlags struct {
	Disabled []dRe    `json:"disabled"`
	Enabled  []string `json:"enabled"`
	Offline  bool     `json:"offline"`
}

// reSrc is ReSrc of Dispatch.tla.
func reSrc(r dRe) string {
	switch r.Form {
	case "lit":
		return r.A
	case "pre":
		return r.A + ".*"
	case "suf":
		return ".*" + r.A
	case "has":
		return ".*" + r.A + ".*"
	case "any":
		return ".*"
	case "some":
		return ".+"
	case "galt":
		return "(" + r.A + "|" + r.B + ")"
	case "alt":
		return r.A + "|" + r.B
	}
	return ""
}

func hclStr(s string) string {
	b, _ := json.Marshal(s)
	// HCL template sequences
	return strings.ReplaceAll(strings.ReplaceAll(string(b), "${", "$${"), "%{", "%%{")
}

func hclList(l []string) string {
	q := make([]string, 0, len(l))
	for _, s := range l {
		q = append(q, hclStr(s))
	}
	return "[" + strings.Join(q, ", ") + "]"
}

// the unreachable address every online check fails against (connection refused, immediately)
const deadURI = "http://127.0.0.1:1"

// HCL text of a configurable check kind, variants 1 and 2; the expected String() of the resulting
// check is the `str` column of CfgRows in Dispatch.tla.
var kindHCL = map[string][2]string{
	"aggregate_keep":  {`aggregate ".+" { keep = ["job"] }`, `aggregate ".+" { keep = ["instance"] }`},
	"aggregate_strip": {`aggregate ".+" { strip = ["instance"] }`, `aggregate ".+" { strip = ["pod"] }`},
	"cost":            {`cost { maxSeries = 10 }`, `cost { maxTotalSamples = 100 }`},
	"annotation":      {`annotation "summary" { required = true }`, `annotation "dashboard" { required = true }`},
	"label":           {`label "team" { required = true }`, `label "tier" { required = true }`},
	"alerts":          {"alerts {\n    range = \"1h\"\n    step = \"1m\"\n    resolve = \"5m\"\n  }", "alerts {\n    range = \"2h\"\n    step = \"1m\"\n    resolve = \"5m\"\n  }"},
	"reject_lk":       {`reject "bad.*" { label_keys = true }`, `reject "worse.*" { label_keys = true }`},
	"reject_lv":       {`reject "bad.*" { label_values = true }`, `reject "worse.*" { label_values = true }`},
	"reject_ak":       {`reject "bad.*" { annotation_keys = true }`, `reject "worse.*" { annotation_keys = true }`},
	"reject_av":       {`reject "bad.*" { annotation_values = true }`, `reject "worse.*" { annotation_values = true }`},
	"link":            {"link \"https?://.+\" {\n    uri = \"" + deadURI + "/x\"\n    timeout = \"1s\"\n  }", "link \"ftp://.+\" {\n    uri = \"" + deadURI + "/y\"\n    timeout = \"1s\"\n  }"},
	"for":             {`for { min = "5m" }`, `for { max = "1h" }`},
	"keep_firing_for": {`keep_firing_for { max = "1m" }`, `keep_firing_for { max = "1h" }`},
	"name":            {`name "rec:.+" {}`, `name "total:.+" {}`},
	"range_query":     {`range_query { max = "1h" }`, `range_query { max = "2h" }`},
	"report":          {"report {\n    comment = \"marker\"\n    severity = \"warning\"\n  }", "report {\n    comment = \"marker2\"\n    severity = \"warning\"\n  }"},
}

var kindOrder = []string{"aggregate_keep", "aggregate_strip", "cost", "annotation", "label", "alerts", "reject_lk",
	"reject_lv", "reject_ak", "reject_av", "link", "for", "keep_firing_for", "name", "range_query", "report"}

func fmtDur(sec int) string {
	switch {
	case sec%3600 == 0 && sec > 0:
		return fmt.Sprintf("%dh", sec/3600)
	case sec%60 == 0 && sec > 0:
		return fmt.Sprintf("%dm", sec/60)
	}
	return fmt.Sprintf("%ds", sec)
}

func renderMatch(kw string, m dMatch) string {
	var b strings.Builder
	b.WriteString("  " + kw + " {\n")
	if m.Path.Form != "none" {
		b.WriteString("    path = " + hclStr(reSrc(m.Path)) + "\n")
	}
	if m.Name.Form != "none" {
		b.WriteString("    name = " + hclStr(reSrc(m.Name)) + "\n")
	}
	if m.Kind != "" {
		b.WriteString("    kind = " + hclStr(m.Kind) + "\n")
	}
	if m.Command != "" {
		b.WriteString("    command = " + hclStr(m.Command) + "\n")
	}
	if len(m.State) > 0 {
		b.WriteString("    state = " + hclList(m.State) + "\n")
	}
	if m.Label.Set {
		b.WriteString("    label " + hclStr(reSrc(m.Label.Key)) + " {\n      value = " + hclStr(reSrc(m.Label.Value)) + "\n    }\n")
	}
	if m.Annotation.Set {
		b.WriteString("    annotation " + hclStr(reSrc(m.Annotation.Key)) + " {\n      value = " + hclStr(reSrc(m.Annotation.Value)) + "\n    }\n")
	}
	if m.For.Op != "none" && m.For.Op != "" {
		b.WriteString("    for = " + hclStr(m.For.Op+" "+fmtDur(m.For.Dur)) + "\n")
	}
	if m.Kff.Op != "none" && m.Kff.Op != "" {
		b.WriteString("    keep_firing_for = " + hclStr(m.Kff.Op+" "+fmtDur(m.Kff.Dur)) + "\n")
	}
	b.WriteString("  }\n")
	return b.String()
}

// renderCfg writes the abstract configuration as .pint.hcl text.
func renderCfg(c dCfg) string {
	var b strings.Builder
	for _, p := range c.Proms {
		fmt.Fprintf(&b, "prometheus %s {\n  uri = %s\n  timeout = \"1s\"\n  rateLimit = 100000\n  tags = %s\n}\n",
			hclStr(p.Name), hclStr(deadURI), hclList(p.Tags))
	}
	if len(c.Enabled) > 0 || len(c.Disabled) > 0 {
		b.WriteString("checks {\n")
		if len(c.Enabled) > 0 {
			b.WriteString("  enabled = " + hclList(c.Enabled) + "\n")
		}
		if len(c.Disabled) > 0 {
			b.WriteString("  disabled = " + hclList(c.Disabled) + "\n")
		}
		b.WriteString("}\n")
	}
	for _, blk := range c.Blocks {
		b.WriteString("rule {\n")
		if blk.Locked {
			b.WriteString("  locked = true\n")
		}
		for _, m := range blk.Match {
			b.WriteString(renderMatch("match", m))
		}
		for _, m := range blk.Ignore {
			b.WriteString(renderMatch("ignore", m))
		}
		if len(blk.Enable) > 0 {
			b.WriteString("  enable = " + hclList(blk.Enable) + "\n")
		}
		if len(blk.Disable) > 0 {
			b.WriteString("  disable = " + hclList(blk.Disable) + "\n")
		}
		for _, k := range kindOrder {
			for _, kv := range blk.Kinds {
				if kv.Kind == k {
					b.WriteString("  " + kindHCL[k][kv.V-1] + "\n")
				}
			}
		}
		switch blk.Marker {
		case "":
		case "report":
			b.WriteString("  report {\n    comment = \"m\"\n    severity = \"warning\"\n  }\n")
		default:
			b.WriteString("  name " + hclStr(blk.Marker) + " {\n    comment = " + hclStr(blk.Marker) + "\n  }\n")
		}
		b.WriteString("}\n")
	}
	return b.String()
}

// renderFlags gives the global command-line flags of actionSetup.
func renderFlags(f dFlags) (args []string) {
	for _, d := range f.Disabled {
		args = append(args, "--disabled", reSrc(d))
	}
	for _, e := range f.Enabled {
		args = append(args, "--enabled", e)
	}
	if f.Offline {
		args = append(args, "--offline")
	}
	return args
}

func shortHash(parts ...any) string {
	h := sha256.New()
	for _, p := range parts {
		fmt.Fprintf(h, "%v\x00", p)
	}
	return hex.EncodeToString(h.Sum(nil))[:12]
}
