package main

// exec-c17bb: EXEC for the CommentSync family (C17), BitBucket part.
// The real BitBucketReporter.Submit (pull request branch: limitComments -> pruneComments -> addComments) runs
// against a fake BitBucket Server REST API that keeps the comment store (activities, paged 25 per page).
// The pending comments of a run are not observable through an interface, so every run is preceded by a dry run
// of the same Submit against an empty throw-away server with a large budget: what it posts there is what
// bitBucketAPI.makeComments produced. The anchor's line type is folded into the recorded line
// (+1000 CONTEXT, +2000 REMOVED), as in spec/CommentSync.tla.

import (
	"encoding/json"
	"fmt"
	"io"
	"net/http"
	"net/http/httptest"
	"os"
	"path/filepath"
	"regexp"
	"runtime"
	"strconv"
	"strings"
	"sync"
	"time"

	"github.com/cloudflare/pint/internal/reporter"
)

type c17BBAnchor struct {
	Path     string `json:"path,omitempty"`
	LineType string `json:"lineType,omitempty"`
	FileType string `json:"fileType,omitempty"`
	DiffType string `json:"diffType"`
	Line     int    `json:"line,omitempty"`
}

type c17BBComment struct {
	c17Comment
	Anchor   c17BBAnchor
	Severity string
}

type c17BBSrv struct {
	mu     sync.Mutex
	pad    int
	store  []c17BBComment
	nextID int
	mod    map[string][]int // abs path -> modified lines
	total  map[string]int
	order  []string
	before []c17BBComment
	calls  []c17Call
	bad    []string
	posts  []c17BBComment
}

var (
	c17BBComments = regexp.MustCompile(`^/rest/api/1\.0/projects/P/repos/R/pull-requests/7/comments(/(\d+))?$`)
)

func c17BBLine(a c17BBAnchor) int {
	switch a.LineType {
	case "CONTEXT":
		return a.Line + 1000
	case "REMOVED":
		return a.Line + 2000
	}
	return a.Line
}

func (s *c17BBSrv) posBefore(id int) int {
	for k, c := range s.before {
		if c.ID == id {
			return k + 1
		}
	}
	return 0
}

func (s *c17BBSrv) ServeHTTP(w http.ResponseWriter, r *http.Request) {
	s.mu.Lock()
	defer s.mu.Unlock()
	body, _ := io.ReadAll(r.Body)
	write := func(v any) {
		b, _ := json.Marshal(v)
		_, _ = w.Write(b)
	}
	p := r.URL.Path
	const api = "/rest/api/1.0/projects/P/repos/R/"
	switch {
	case p == "/plugins/servlet/applinks/whoami":
		_, _ = w.Write([]byte("pint-bot\n"))
	case strings.HasPrefix(p, "/rest/insights/1.0/projects/P/repos/R/commits/head/reports/pint"):
		write(map[string]any{})
	case p == api+"commits/head/pull-requests":
		write(map[string]any{"isLastPage": true, "start": 0, "values": []map[string]any{{"id": 7, "open": true,
			"fromRef": map[string]string{"id": "refs/heads/branch", "latestCommit": "head"},
			"toRef":   map[string]string{"id": "refs/heads/main", "latestCommit": "base"}}}})
	case p == api+"pull-requests/7/changes":
		vals := []map[string]any{}
		for _, f := range s.order {
			vals = append(vals, map[string]any{"path": map[string]string{"toString": f}})
		}
		write(map[string]any{"isLastPage": true, "start": 0, "values": vals})
	case strings.HasPrefix(p, "/rest/api/latest/projects/P/repos/R/commits/head/diff/"):
		f := "/" + strings.TrimLeft(strings.TrimPrefix(p, "/rest/api/latest/projects/P/repos/R/commits/head/diff/"), "/")
		isMod := map[int]bool{}
		for _, l := range s.mod[f] {
			isMod[l] = true
		}
		segs := []map[string]any{}
		for i := 1; i <= s.total[f]; i++ {
			t := "CONTEXT"
			if isMod[i] {
				t = "ADDED"
			}
			segs = append(segs, map[string]any{"type": t, "lines": []map[string]int{{"source": i, "destination": i}}})
		}
		write(map[string]any{"diffs": []map[string]any{{"hunks": []map[string]any{{"segments": segs}}}}})
	case p == "/rest/api/latest/projects/P/repos/R/pull-requests/7/activities":
		acts := []map[string]any{}
		act := func(id int, author, text, sev string, a c17BBAnchor) map[string]any {
			return map[string]any{"action": "COMMENTED", "commentAction": "ADDED",
				"commentAnchor": map[string]any{"path": a.Path, "line": a.Line, "lineType": a.LineType, "diffType": a.DiffType, "orphaned": false},
				"comment": map[string]any{"id": id, "version": 1, "text": text, "author": map[string]string{"name": author}, "state": "OPEN",
					"severity": sev, "comments": []any{}, "threadResolved": false}}
		}
		acts = append(acts, map[string]any{"action": "OPENED"})
		for k := 0; k < s.pad; k++ {
			acts = append(acts, act(100000+k, "somebody", "an old remark of a reviewer", "NORMAL",
				c17BBAnchor{Path: s.order[len(s.order)-1], Line: 1, LineType: "ADDED", DiffType: "EFFECTIVE"}))
		}
		for _, c := range s.store {
			author := "pint-bot"
			if !c.Mine {
				author = "somebody"
			}
			acts = append(acts, act(c.ID, author, c.Text, c.Severity, c.Anchor))
		}
		start, _ := strconv.Atoi(r.URL.Query().Get("start"))
		hi := start + 25
		last := hi >= len(acts)
		if last {
			hi = len(acts)
		}
		if start > len(acts) {
			start = len(acts)
		}
		write(map[string]any{"values": acts[start:hi], "start": start, "isLastPage": last, "nextPageStart": hi})
	case c17BBComments.MatchString(p) && r.Method == http.MethodPost:
		var req struct {
			Text     string      `json:"text"`
			Severity string      `json:"severity"`
			Anchor   c17BBAnchor `json:"anchor"`
		}
		if err := json.Unmarshal(body, &req); err != nil {
			s.bad = append(s.bad, "bad comment: "+err.Error())
		}
		s.nextID++
		c := c17BBComment{c17Comment{ID: s.nextID, Path: req.Anchor.Path, Line: c17BBLine(req.Anchor), Text: req.Text, Mine: true}, req.Anchor, req.Severity}
		s.store = append(s.store, c)
		s.posts = append(s.posts, c)
		s.calls = append(s.calls, c17Call{"create", len(s.posts), 0}) // index fixed up against the pending list later
		w.WriteHeader(http.StatusCreated)
		write(map[string]any{"id": c.ID})
	case c17BBComments.MatchString(p) && r.Method == http.MethodDelete:
		id, _ := strconv.Atoi(c17BBComments.FindStringSubmatch(p)[2])
		for k, c := range s.store {
			if c.ID == id {
				s.store = append(s.store[:k:k], s.store[k+1:]...)
				break
			}
		}
		s.calls = append(s.calls, c17Call{"delete", s.posBefore(id), 0})
		w.WriteHeader(http.StatusNoContent)
	case c17BBComments.MatchString(p) && r.Method == http.MethodPut:
		s.bad = append(s.bad, "unexpected comment update "+p) // replies are not in the vocabulary
		write(map[string]any{})
	default:
		s.bad = append(s.bad, r.Method+" "+p)
		w.WriteHeader(http.StatusNotFound)
	}
}

func c17BBGit(args ...string) ([]byte, error) {
	if len(args) > 1 && args[1] == "--abbrev-ref" {
		return []byte("branch\n"), nil
	}
	return []byte("head\n"), nil
}

func c17BBPlain(cs []c17BBComment) []c17Comment {
	out := make([]c17Comment, 0, len(cs))
	for _, c := range cs {
		out = append(out, c.c17Comment)
	}
	return out
}

// everything bitBucketAPI.makeComments produces for this lint result (dry run against an empty server)
func c17BBPending(dir string, lr c17Lint, showdup bool) ([]c17BBComment, error) {
	srv := &c17BBSrv{mod: map[string][]int{}, total: map[string]int{}}
	for _, f := range []string{"F1", "F2"} {
		abs := filepath.Join(dir, c17FileName[f])
		srv.order = append(srv.order, abs)
		srv.mod[abs], srv.total[abs] = lr.mod[f], lr.total[f]
	}
	ts := httptest.NewServer(srv)
	defer ts.Close()
	bb := reporter.NewBitBucketReporter("v0", ts.URL, 10*time.Second, "token", "P", "R", 50, showdup, c17BBGit)
	if err := bb.Submit(lr.summary); err != nil {
		return nil, err
	}
	if len(srv.bad) > 0 {
		return nil, fmt.Errorf("dry run: unexpected requests %v", srv.bad)
	}
	return srv.posts, nil
}

func c17RunCaseBB(id int, cs c17Case, emit func(any)) error {
	dir, err := os.MkdirTemp(shmDir(), "c17b-")
	if err != nil {
		return err
	}
	defer os.RemoveAll(dir)
	srv := &c17BBSrv{pad: cs.Pad, mod: map[string][]int{}, total: map[string]int{}}
	ts := httptest.NewServer(srv)
	defer ts.Close()
	bb := reporter.NewBitBucketReporter("v0", ts.URL, 10*time.Second, "token", "P", "R", cs.Max, cs.Showdup, c17BBGit)
	in := &c17Interner{ids: map[string]int{}}
	type seedRec struct {
		c17RecComment
		Atext c17Text `json:"atext"`
	}
	seeds := []seedRec{}
	for _, sd := range cs.Seeds {
		text := "a comment written by an older pint version about a problem that is gone\n"
		if sd.Text.G != "stale" {
			on := map[string]bool{}
			for _, p := range sd.Text.M {
				on[p] = true
			}
			lr, err := c17DoLint(dir, on, c17Var{Shift: sd.Text.S, Mod: "all"})
			if err != nil {
				return err
			}
			pend, err := c17BBPending(dir, lr, len(sd.Text.M) > 0 && (on["P5"] || on["P6"]))
			if err != nil {
				return err
			}
			text = ""
			for _, p := range pend {
				if c17AbsPath(p.Path) == sd.Path && len(c17Carries(p.Text)) == len(sd.Text.M) {
					text = p.Text
				}
			}
			if text == "" {
				return fmt.Errorf("case %d: no BitBucket comment text for seed %+v", id, sd.Text)
			}
		}
		text = strings.TrimRight(text, "\n") + strings.Repeat("\n", sd.Nl)
		srv.nextID++
		line, lt := sd.Line%1000, "ADDED"
		if sd.Line >= 2000 {
			lt = "REMOVED"
		} else if sd.Line >= 1000 {
			lt = "CONTEXT"
		}
		abs := filepath.Join(dir, c17FileName[sd.Path])
		c := c17BBComment{c17Comment{ID: srv.nextID, Path: abs, Line: sd.Line, Text: text, Mine: sd.Mine},
			c17BBAnchor{Path: abs, Line: line, LineType: lt, DiffType: "EFFECTIVE"}, "NORMAL"}
		srv.store = append(srv.store, c)
		at := sd.Text
		if at.M == nil {
			at.M = []string{}
		}
		seeds = append(seeds, seedRec{in.comment(c.c17Comment), at})
	}
	emit(map[string]any{"ev": "Case", "id": id, "plat": cs.Plat, "max": cs.Max, "strip": false, "pad": cs.Pad, "padf": 0, "showdup": cs.Showdup, "store": seeds})
	for rn, run := range cs.Runs {
		on := map[string]bool{}
		for _, p := range run.Reports {
			on[p] = true
		}
		lr, err := c17DoLint(dir, on, run.Var)
		if err != nil {
			return err
		}
		if len(lr.extra) > 0 || len(lr.probs) != len(run.Reports) {
			return fmt.Errorf("case %d run %d: pipeline reported %v (+%v) for %v", id, rn+1, lr.probs, lr.extra, run.Reports)
		}
		pending, err := c17BBPending(dir, lr, cs.Showdup)
		if err != nil {
			return err
		}
		srv.mu.Lock()
		srv.order = nil
		for _, f := range []string{"F1", "F2"} {
			abs := filepath.Join(dir, c17FileName[f])
			srv.order = append(srv.order, abs)
			srv.mod[abs], srv.total[abs] = lr.mod[f], lr.total[f]
		}
		srv.before = append([]c17BBComment{}, srv.store...)
		srv.calls, srv.posts = []c17Call{}, nil
		srv.mu.Unlock()
		errStr := ""
		if err := bb.Submit(lr.summary); err != nil {
			errStr = err.Error()
		}
		srv.mu.Lock()
		if len(srv.bad) > 0 {
			srv.mu.Unlock()
			return fmt.Errorf("case %d run %d: fake BitBucket server got unexpected requests: %v", id, rn+1, srv.bad)
		}
		// the limited pending list as the spec sees it: index of every posted comment in (pending cut to max + notice)
		calls := []c17Call{}
		deleted := []int{}
		used := map[int]bool{}
		for _, c := range srv.calls {
			if c.Op == "delete" {
				calls = append(calls, c)
				deleted = append(deleted, c.A)
				continue
			}
			post := srv.posts[c.A-1]
			k := 0
			for idx, q := range pending {
				if !used[idx] && idx < cs.Max && q.Path == post.Path && q.Text == post.Text && q.Line == post.Line {
					k = idx + 1
					used[idx] = true
					break
				}
			}
			if k == 0 && post.Path == "" {
				k = cs.Max + 1 // the notice about skipped comments
			}
			calls = append(calls, c17Call{"create", k, 0})
		}
		pend := []c17PendRec{}
		for _, p := range pending {
			a := "after"
			if p.Anchor.LineType == "REMOVED" {
				a = "before"
			}
			pend = append(pend, c17PendRec{c17AbsPath(p.Path), p.Line, in.id(p.Text), c17Carries(p.Text), a})
		}
		notice := 0
		for _, lst := range [][]c17BBComment{srv.before, srv.store, srv.posts} {
			for _, c := range lst {
				if c.Path == "" {
					notice = in.id(c.Text)
				}
			}
		}
		reps := append([]string{}, run.Reports...)
		emit(map[string]any{"ev": "Run", "id": id, "run": rn + 1, "reports": reps, "shift": run.Var.Shift, "mod": run.Var.Mod,
			"notice": notice, "pending": pend, "before": in.comments(c17BBPlain(srv.before)), "listed": []int{}, "calls": calls, "callsobs": false,
			"creates": in.comments(c17BBPlain(srv.posts)), "deleted": deleted, "after": in.comments(c17BBPlain(srv.store)),
			"general": 0, "isequal": 0, "err": errStr, "fault": c17Fault{"none", 0}, "hit": false, "nerrs": 0})
		srv.mu.Unlock()
	}
	return nil
}

func init() {
	register("exec-c17bb", func(in []json.RawMessage, out *Out, args []string) error {
		results := make([][]any, len(in))
		var mu sync.Mutex
		var firstErr error
		parallel(len(in), runtime.NumCPU(), func(idx int) {
			var cs c17Case
			if err := json.Unmarshal(in[idx], &cs); err != nil {
				mu.Lock()
				firstErr = err
				mu.Unlock()
				return
			}
			var recs []any
			if err := c17RunCaseBB(idx+1, cs, func(v any) { recs = append(recs, v) }); err != nil {
				mu.Lock()
				if firstErr == nil {
					firstErr = err
				}
				mu.Unlock()
				return
			}
			results[idx] = recs
		})
		if firstErr != nil {
			return firstErr
		}
		for _, rs := range results {
			for _, r := range rs {
				out.Write(r)
			}
		}
		return nil
	})
}
