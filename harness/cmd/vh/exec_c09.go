package main

// exec-c09: EXEC for DispatchC09 (C09 - rule{} match/ignore blocks select rules by their documented meaning).
// The first input record carries the abstract rule corpus (Corpus of DispatchC09.tla), the commands and the
// change states; every other record is a configuration (rule{} blocks with match / ignore sub-blocks and one
// marker check per block). The corpus is rendered to rule files once and parsed once by the real parser.
// For every configuration the real config loader reads the generated HCL and config.GetChecksForEntry is
// asked, for every command x state x rule, which checks apply; the marker checks returned are run and
// their problems recorded:   obs[cmd][state][block] = string over the corpus, '1' = marker problem on rule i.
// A sample of configurations also goes through the real `pint lint` binary (src = "binary").

import (
	"encoding/json"
	"errors"
	"fmt"
	"os"
	"os/exec"
	"path/filepath"
	"runtime"
	"sort"
	"strconv"
	"strings"

	"github.com/cloudflare/pint/internal/discovery"
	"github.com/cloudflare/pint/verifharness/pipe"
)

type dLabel struct {
	K string `json:"k"`
	V string `json:"v"`
}

type dEntry struct {
	Rkind       string   `json:"rkind"`
	Name        string   `json:"name"`
	Path        string   `json:"path"`
	Labels      []dLabel `json:"labels"`
	Glabels     []dLabel `json:"glabels"`
	Annotations []dLabel `json:"annotations"`
	For         int      `json:"for"`
	Kff         int      `json:"kff"`
}

type c09Head struct {
	Corpus []dEntry    `json:"corpus"`
	Combos [][2]string `json:"combos"` // (command, state) points to evaluate
	Full   [][2]string `json:"full"`   // all points, for cases that ask for them
}

type c09Case struct {
	Blocks []dBlock `json:"blocks"`
	Full   bool     `json:"full"`
}

// renderCorpus writes one file per path, one group per distinct group-label set; returns (path, first line)
// of every corpus entry.
func renderCorpus(dir string, corpus []dEntry) (where map[string]int, paths []string, err error) {
	where = map[string]int{}
	byPath := map[string][]int{}
	for i, e := range corpus {
		if _, ok := byPath[e.Path]; !ok {
			paths = append(paths, e.Path)
		}
		byPath[e.Path] = append(byPath[e.Path], i)
	}
	sort.Strings(paths)
	for _, p := range paths {
		var b strings.Builder
		line := 0
		w := func(s string) { b.WriteString(s + "\n"); line++ }
		w("groups:")
		groups := []string{}
		byGroup := map[string][]int{}
		for _, i := range byPath[p] {
			k, _ := json.Marshal(corpus[i].Glabels)
			if _, ok := byGroup[string(k)]; !ok {
				groups = append(groups, string(k))
			}
			byGroup[string(k)] = append(byGroup[string(k)], i)
		}
		for gi, g := range groups {
			w(fmt.Sprintf("- name: g%d", gi+1))
			idx := byGroup[g]
			if gl := corpus[idx[0]].Glabels; len(gl) > 0 {
				w("  labels:")
				for _, l := range gl {
					w(fmt.Sprintf("    %s: %s", l.K, l.V))
				}
			}
			w("  rules:")
			for _, i := range idx {
				e := corpus[i]
				where[p+":"+strconv.Itoa(line+1)] = i
				if e.Rkind == "alerting" {
					w("  - alert: " + e.Name)
					w("    expr: up == 0")
					if e.For >= 0 {
						w("    for: " + fmtDur(e.For))
					}
					if e.Kff >= 0 {
						w("    keep_firing_for: " + fmtDur(e.Kff))
					}
				} else {
					w("  - record: " + e.Name)
					w("    expr: sum(up)")
				}
				if len(e.Labels) > 0 {
					w("    labels:")
					for _, l := range e.Labels {
						w(fmt.Sprintf("      %s: %s", l.K, l.V))
					}
				}
				if len(e.Annotations) > 0 {
					w("    annotations:")
					for _, l := range e.Annotations {
						w(fmt.Sprintf("      %s: %s", l.K, l.V))
					}
				}
			}
		}
		full := filepath.Join(dir, p)
		if err = os.MkdirAll(filepath.Dir(full), 0o755); err != nil {
			return nil, nil, err
		}
		if err = os.WriteFile(full, []byte(b.String()), 0o644); err != nil {
			return nil, nil, err
		}
	}
	return where, paths, nil
}

func markerString(m string) string {
	if m == "report" {
		return "rule/report"
	}
	return "rule/name(^" + m + "$)"
}

func init() {
	register("exec-c09", func(in []json.RawMessage, out *Out, args []string) error {
		if len(args) < 1 {
			return errors.New("usage: exec-c09 -in cases -out trace <pint-binary> [binary-sample-every-N]")
		}
		pint, every := args[0], 25
		if len(args) > 1 {
			every, _ = strconv.Atoi(args[1])
		}
		if len(in) < 1 {
			return errors.New("no corpus record")
		}
		var head c09Head
		if err := json.Unmarshal(in[0], &head); err != nil || len(head.Corpus) == 0 {
			return fmt.Errorf("first record must carry the corpus: %v", err)
		}
		root, err := os.MkdirTemp(shmDir(), "vh-c09-")
		if err != nil {
			return err
		}
		defer os.RemoveAll(root)
		corpusDir := filepath.Join(root, "corpus")
		where, paths, err := renderCorpus(corpusDir, head.Corpus)
		if err != nil {
			return err
		}
		if keep := os.Getenv("C09_DUMP_CORPUS"); keep != "" {
			exec.Command("cp", "-r", corpusDir, keep).Run()
		}
		// entries must carry the relative paths the binary would see: the whole process works from the corpus dir
		if err = os.Chdir(corpusDir); err != nil {
			return err
		}
		tops := []string{}
		seenTop := map[string]bool{}
		for _, p := range paths {
			t := strings.SplitN(p, "/", 2)[0]
			if !seenTop[t] {
				seenTop[t] = true
				tops = append(tops, t)
			}
		}
		// parse returns freshly parsed entries (every configuration gets its own, like a fresh pint process)
		// and the corpus index of each; the parse must give back exactly the corpus.
		parse := func() ([]discovery.Entry, []int, error) {
			entries, err := pipe.FindEntries(tops)
			if err != nil {
				return nil, nil, err
			}
			e2c := make([]int, len(entries))
			got := map[int]bool{}
			for i, e := range entries {
				ci, ok := where[e.Path.Name+":"+strconv.Itoa(e.Rule.Lines.First)]
				if !ok || e.PathError != nil || e.Rule.Error.Err != nil || e.Rule.Name() != head.Corpus[ci].Name {
					return nil, nil, fmt.Errorf("corpus does not parse back: entry %s:%d %q err=%v", e.Path.Name, e.Rule.Lines.First, e.Rule.Name(), e.Rule.Error.Err)
				}
				if (e.Rule.AlertingRule != nil) != (head.Corpus[ci].Rkind == "alerting") {
					return nil, nil, fmt.Errorf("corpus kind mismatch at %s:%d", e.Path.Name, e.Rule.Lines.First)
				}
				e2c[i] = ci
				got[ci] = true
			}
			if len(got) != len(head.Corpus) {
				return nil, nil, fmt.Errorf("parsed %d of %d corpus rules", len(got), len(head.Corpus))
			}
			return entries, e2c, nil
		}
		if _, _, err = parse(); err != nil {
			return err
		}
		n := len(head.Corpus)
		cases := in[1:]
		results := make([][]any, len(cases))
		errs := make([]error, len(cases))
		workers := runtime.NumCPU()
		if workers > 16 {
			workers = 16
		}
		parallel(len(cases), workers, func(ix int) {
			var c c09Case
			if err := json.Unmarshal(cases[ix], &c); err != nil {
				errs[ix] = err
				return
			}
			cfgText := renderCfg(dCfg{Blocks: c.Blocks})
			tmp, err := os.MkdirTemp(root, "cfg-")
			if err != nil {
				errs[ix] = err
				return
			}
			defer os.RemoveAll(tmp)
			cfg, err := pipe.LoadConfig(tmp, cfgText)
			if err != nil {
				errs[ix] = fmt.Errorf("case %d: configuration rejected: %v\n%s", ix+1, err, cfgText)
				return
			}
			// marker check String() -> the blocks that define it (several blocks may carry the identical marker: what is
			// observable is the check, so its problem is recorded for each of them)
			mstr := map[string][]int{}
			for b, blk := range c.Blocks {
				mstr[markerString(blk.Marker)] = append(mstr[markerString(blk.Marker)], b)
			}
			isMarker := func(s string) bool { _, ok := mstr[s]; return ok }
			entries, e2c, err := parse()
			if err != nil {
				errs[ix] = err
				return
			}
			combos := head.Combos
			if c.Full && len(head.Full) > 0 {
				combos = head.Full
			}
			obs := make([][]string, len(combos))
			for k, cs := range combos {
				ms, err := pipe.DispatchMarkersCfg(cfg, entries, cs[0], cs[1], isMarker)
				if err != nil {
					errs[ix] = fmt.Errorf("case %d %s/%s: %v", ix+1, cs[0], cs[1], err)
					return
				}
				rows := make([][]byte, len(c.Blocks))
				for b := range rows {
					rows[b] = []byte(strings.Repeat("0", n))
				}
				for _, m := range ms {
					for _, b := range mstr[m.Check] {
						rows[b][e2c[m.Entry]] = '1'
					}
				}
				obs[k] = make([]string, len(rows))
				for b := range rows {
					obs[k][b] = string(rows[b])
				}
			}
			results[ix] = append(results[ix], map[string]any{"ev": "Eval", "id": ix + 1, "src": "inproc", "blocks": json.RawMessage(mustField(cases[ix], "blocks")),
				"combos": combos, "obs": obs})
			if every > 0 && ix%every == 0 {
				rows, err := c09Binary(pint, corpusDir, tmp, cfgText, tops, c.Blocks, where, n)
				if err != nil {
					errs[ix] = fmt.Errorf("case %d binary: %v", ix+1, err)
					return
				}
				results[ix] = append(results[ix], map[string]any{"ev": "Eval", "id": ix + 1, "src": "binary", "blocks": json.RawMessage(mustField(cases[ix], "blocks")),
					"combos": [][2]string{{"lint", "noop"}}, "obs": [][]string{rows}})
			}
		})
		for _, e := range errs {
			if e != nil {
				return e
			}
		}
		for _, rs := range results {
			for _, r := range rs {
				out.Write(r)
			}
		}
		return nil
	})
}

func mustField(raw json.RawMessage, f string) []byte {
	var m map[string]json.RawMessage
	json.Unmarshal(raw, &m)
	return m[f]
}

// c09Binary runs `pint lint` on the corpus and projects the --json report to marker rows.
func c09Binary(pint, corpusDir, tmp, cfgText string, tops []string, blocks []dBlock, where map[string]int, n int) ([]string, error) {
	cfgPath := filepath.Join(tmp, "bin.hcl")
	jsonPath := filepath.Join(tmp, "bin.json")
	if err := os.WriteFile(cfgPath, []byte(cfgText), 0o644); err != nil {
		return nil, err
	}
	args := append([]string{"-n", "-l", "error", "--config", cfgPath, "--offline", "lint", "--min-severity", "info", "--json", jsonPath}, tops...)
	cmd := exec.Command(pint, args...)
	cmd.Dir = corpusDir
	outb, _ := cmd.CombinedOutput()
	raw, err := os.ReadFile(jsonPath)
	if err != nil {
		return nil, fmt.Errorf("no report: %s", tail(string(outb), 800))
	}
	var reps []pintJSON
	if err := json.Unmarshal(raw, &reps); err != nil {
		return nil, err
	}
	rows := make([][]byte, len(blocks))
	for b := range rows {
		rows[b] = []byte(strings.Repeat("0", n))
	}
	for _, r := range reps {
		hit := []int{}
		for bi, blk := range blocks {
			switch {
			case blk.Marker == "report" && r.Reporter == "rule/report":
				hit = append(hit, bi)
			case blk.Marker != "report" && r.Reporter == "rule/name" && r.Details == "Rule comment: "+blk.Marker:
				hit = append(hit, bi)
			}
		}
		if len(hit) == 0 || len(r.Lines) == 0 {
			continue
		}
		ci, ok := where[r.Path+":"+strconv.Itoa(r.Lines[0])]
		if !ok {
			return nil, fmt.Errorf("marker problem at %s:%v is not on the first line of a corpus rule", r.Path, r.Lines)
		}
		for _, b := range hit {
			rows[b][ci] = '1'
		}
	}
	res := make([]string, len(rows))
	for b := range rows {
		res[b] = string(rows[b])
	}
	return res, nil
}
