package main

// exec-lflow: EXEC for the LabelFlow family (C04 and C12).
// For every abstract expression from GEN it records, from real code only:
//   - the projected branches of utils.LabelsSource and, per branch, what the real CanHaveLabel denies,
//   - the labels the real alerts/template check reports as missing, the promql/impossible problems,
//   - what the real PromQL engine returns on a family of in-memory databases: the distinct sets of
//     label names seen on result series (with a witness each) and a few full results for binding the
//     specification's own PromQL semantics,
//   - for every binary sub-expression carrying a *new* impossible-problem: whether the engine returns
//     series for it (and whether its result differs from its left operand) on databases whose series
//     carry every label the sub-expression names.

import (
	"encoding/json"
	"fmt"
	"math/rand"
	"os"
	"runtime"
	"sort"
	"strconv"
	"strings"
	"sync"

	"github.com/cloudflare/pint/verifharness/lflow"
)

type lfCase struct {
	E   json.RawMessage  `json:"e"`
	DBs [][]lflow.Series `json:"dbs"` // extra databases to evaluate on (witnesses of model-level leads)
}

type lfWitness struct {
	DB  []lflow.Series `json:"db"`
	Res []lflow.Series `json:"res"`
	Err bool           `json:"err"`
}

type lfSet struct {
	Names []string  `json:"names"`
	N     int       `json:"n"`
	Wit   lfWitness `json:"wit"`
}

type lfC12 struct {
	Path     []string       `json:"path"`
	LCannot  []string       `json:"lcannot"`
	RCannot  []string       `json:"rcannot"`
	Q        string         `json:"q"`
	Op       string         `json:"op"`
	Flags    []lflow.Flag   `json:"flags"`
	LOr      bool           `json:"lor"`
	ROr      bool           `json:"ror"`
	NPrem    int            `json:"nprem"`
	NonEmpty int            `json:"nonempty"`
	WitNE    lfWitness      `json:"wit_ne"`
	Differs  int            `json:"differs"`
	WitDiff  lfWitness      `json:"wit_diff"`
	LhsDiff  []lflow.Series `json:"lhs_diff"`
}

func envInt(name string, def int) int {
	if v, err := strconv.Atoi(os.Getenv(name)); err == nil {
		return v
	}
	return def
}

func nameList(s lflow.Series) []string {
	out := []string{}
	for _, r := range s.NameSet() {
		out = append(out, string(r))
	}
	return out
}

func sameSeries(a, b []lflow.Series) bool {
	if len(a) != len(b) {
		return false
	}
	for i := range a {
		if a[i] != b[i] {
			return false
		}
	}
	return true
}

func orEmpty(s []lflow.Series) []lflow.Series {
	if s == nil {
		return []lflow.Series{}
	}
	return s
}

func init() {
	register("exec-lflow", func(in []json.RawMessage, out *Out, args []string) error {
		seed := int64(envInt("VERIF_SEED", 1))
		nDB := envInt("LF_NDB", 200)
		nPrem := envInt("LF_NPREM", 200)
		nConc := envInt("LF_NCONC", 6)
		pt := lflow.NewPint()
		eng := lflow.NewEngine()
		// database pools, built once: for every set of labels forced present, the small enumerated
		// databases followed by seeded random ones
		pools := map[string][]*lflow.DB{}
		narrow := map[string]int{}
		forceOf := func(key string) map[string]bool {
			f := map[string]bool{}
			for _, r := range key {
				f[string(r)] = true
			}
			return f
		}
		for _, key := range []string{"", "a", "b", "c", "ab", "ac", "bc", "abc"} {
			prng := rand.New(rand.NewSource(seed*7919 + int64(len(key))*131 + int64(len(pools))))
			n := nDB
			if key != "" {
				n = nPrem
			}
			var pool []*lflow.DB
			seen := map[string]bool{}
			add := func(db []lflow.Series) {
				b, _ := json.Marshal(db)
				if !seen[string(b)] {
					seen[string(b)] = true
					pool = append(pool, lflow.NewDB(db))
				}
			}
			for _, db := range lflow.SmallDBs(forceOf(key)) {
				add(db)
			}
			for i := 0; i < n; i++ {
				add(lflow.RandDB(prng, forceOf(key)))
			}
			narrow[key] = len(pool)
			// wide databases last: up to 5 series per metric and a label d no query names (verdicts only,
			// the specification's semantics is bound on the narrow ones)
			for i := 0; i < n/2; i++ {
				add(lflow.WideDB(prng, forceOf(key)))
			}
			pools[key] = pool
		}
		results := make([]map[string]any, len(in))
		var mu sync.Mutex
		var firstErr error
		fail := func(err error) {
			mu.Lock()
			if firstErr == nil {
				firstErr = err
			}
			mu.Unlock()
		}
		parallel(len(in), runtime.NumCPU(), func(idx int) {
			var cs lfCase
			if err := json.Unmarshal(in[idx], &cs); err != nil {
				fail(err)
				return
			}
			var e lflow.Expr
			if err := json.Unmarshal(cs.E, &e); err != nil {
				fail(err)
				return
			}
			id := idx + 1
			var q string
			func() {
				defer func() {
					if r := recover(); r != nil {
						fail(fmt.Errorf("case %d: cannot render: %v", id, r))
					}
				}()
				q = e.Render()
			}()
			if q == "" {
				return
			}
			rng := rand.New(rand.NewSource(seed*1000003 + int64(id)))
			cache := map[string]lflow.Analysis{}
			analyse := func(q string) (lflow.Analysis, bool) {
				if an, ok := cache[q]; ok {
					return an, true
				}
				an, err := pt.Analyse(q)
				if err != nil {
					fail(fmt.Errorf("case %d: %w", id, err))
					return an, false
				}
				cache[q] = an
				return an, true
			}
			an, ok := analyse(q)
			if !ok {
				return
			}
			// ---- engine on the database family: distinct label-name sets with witnesses
			sets := map[string]*lfSet{}
			conc := []lfWitness{}
			nerr, nempty := 0, 0
			var dbs []*lflow.DB
			for _, db := range cs.DBs {
				dbs = append(dbs, lflow.NewDB(db))
			}
			dbs = append(dbs, pools[""]...)
			concAt := map[int]bool{}
			for i := range cs.DBs {
				concAt[i] = true
			}
			nBind := len(cs.DBs) + narrow[""]
			for len(concAt) < nConc+len(cs.DBs) && len(concAt) < nBind {
				concAt[rng.Intn(nBind)] = true
			}
			for i, mdb := range dbs {
				db := mdb.Src
				res, err := lflow.Eval(eng, mdb, q)
				if err != nil {
					fail(fmt.Errorf("case %d: %w", id, err))
					return
				}
				w := lfWitness{DB: orEmpty(db), Res: orEmpty(res.Series), Err: res.Err != ""}
				if concAt[i] {
					conc = append(conc, w)
				}
				if res.Err != "" {
					nerr++
					continue
				}
				if len(res.Series) == 0 {
					nempty++
				}
				for _, s := range res.Series {
					k := s.NameSet()
					if st, ok := sets[k]; ok {
						st.N++
						if len(db) < len(st.Wit.DB) {
							st.Wit = w
						}
					} else {
						sets[k] = &lfSet{Names: nameList(s), N: 1, Wit: w}
					}
				}
			}
			keys := make([]string, 0, len(sets))
			for k := range sets {
				keys = append(keys, k)
			}
			sort.Strings(keys)
			setList := []lfSet{}
			for _, k := range keys {
				setList = append(setList, *sets[k])
			}
			// ---- C12: binary sub-expressions with a new impossible-problem
			c12 := []lfC12{}
			bad := false
			e.BinaryNodes([]string{}, func(path []string, b *lflow.Expr) {
				if bad {
					return
				}
				bq := b.Render()
				lq, rq := b.L.Render(), b.R.Render()
				ab, ok1 := analyse(bq)
				al, ok2 := analyse(lq)
				ar, ok3 := analyse(rq)
				if !(ok1 && ok2 && ok3) {
					bad = true
					return
				}
				offL := 1
				offR := len(bq) - len(rq) - 1
				if bq[offL:offL+len(lq)] != lq || bq[offR:offR+len(rq)] != rq {
					fail(fmt.Errorf("case %d: operand offsets wrong in %q", id, bq))
					bad = true
					return
				}
				old := map[string]bool{}
				for _, f := range al.Flags {
					old[fmt.Sprintf("%s|%d|%d", f.Msg, f.First+offL, f.Last+offL)] = true
				}
				for _, f := range ar.Flags {
					old[fmt.Sprintf("%s|%d|%d", f.Msg, f.First+offR, f.Last+offR)] = true
				}
				rec := lfC12{Path: path, Q: bq, Flags: []lflow.Flag{}, LOr: b.L.HasOr(), ROr: b.R.HasOr(),
					WitNE: lfWitness{DB: []lflow.Series{}, Res: []lflow.Series{}}, WitDiff: lfWitness{DB: []lflow.Series{}, Res: []lflow.Series{}},
					LhsDiff: []lflow.Series{}, LCannot: []string{}, RCannot: []string{}}
				if len(al.Branches) > 0 {
					rec.LCannot = al.Branches[0].Cannot
				}
				if len(ar.Branches) > 0 {
					rec.RCannot = ar.Branches[0].Cannot
				}
				rec.Op = b.Op
				dedup := map[string]bool{}
				for _, f := range ab.Flags {
					k := fmt.Sprintf("%s|%d|%d", f.Msg, f.First, f.Last)
					if !old[k] && !dedup[k] {
						dedup[k] = true
						rec.Flags = append(rec.Flags, f)
					}
				}
				if len(rec.Flags) == 0 {
					return
				}
				named := map[string]bool{}
				b.Named(named)
				force := map[string]bool{}
				for l := range named {
					if l != "__name__" {
						force[l] = true
					}
				}
				fkey := ""
				for _, l := range []string{"a", "b", "c"} {
					if force[l] {
						fkey += l
					}
				}
				var pdbs []*lflow.DB
				for _, db := range cs.DBs {
					ok := true
					for _, sr := range db {
						if (force["a"] && sr.A == "-") || (force["b"] && sr.B == "-") || (force["c"] && sr.C == "-") {
							ok = false
						}
					}
					if ok {
						pdbs = append(pdbs, lflow.NewDB(db))
					}
				}
				pdbs = append(pdbs, pools[fkey]...)
				lhsVector := true
				for _, mdb := range pdbs {
					db := mdb.Src
					rb, err := lflow.Eval(eng, mdb, bq)
					if err != nil {
						fail(fmt.Errorf("case %d: %w", id, err))
						bad = true
						return
					}
					if rb.Err != "" {
						continue // the operation fails to evaluate on this database: says nothing about the flagged part
					}
					rec.NPrem++
					if len(rb.Series) > 0 && (rec.NonEmpty == 0 || len(db) < len(rec.WitNE.DB)) {
						rec.WitNE = lfWitness{DB: orEmpty(db), Res: rb.Series}
					}
					if len(rb.Series) > 0 {
						rec.NonEmpty++
					}
					if lhsVector && (b.Op == "or" || b.Op == "unless") {
						rl, err := lflow.Eval(eng, mdb, lq)
						if err != nil {
							fail(fmt.Errorf("case %d: %w", id, err))
							bad = true
							return
						}
						if rl.Err == "" && !sameSeries(rb.Series, rl.Series) {
							if rec.Differs == 0 || len(db) < len(rec.WitDiff.DB) {
								rec.WitDiff = lfWitness{DB: orEmpty(db), Res: orEmpty(rb.Series)}
								rec.LhsDiff = orEmpty(rl.Series)
							}
							rec.Differs++
						}
					}
				}
				c12 = append(c12, rec)
			})
			if bad {
				return
			}
			branches := an.Branches
			if branches == nil {
				branches = []lflow.Branch{}
			}
			flags := an.Flags
			if flags == nil {
				flags = []lflow.Flag{}
			}
			results[idx] = map[string]any{"ev": "Case", "id": id, "e": cs.E, "q": q, "branches": branches, "tmpl": an.Tmpl,
				"flags": flags, "ndb": len(dbs), "nerr": nerr, "nempty": nempty, "sets": setList, "conc": conc, "c12": c12,
				"hasor": e.HasOr(), "size": e.Size()}
		})
		if firstErr != nil {
			return firstErr
		}
		for _, r := range results {
			if r == nil {
				return fmt.Errorf("a case produced no record")
			}
			out.Write(r)
		}
		return nil
	})

	// render: abstract expression -> PromQL text (one line per case), used by the driver for messages
	register("lflow-render", func(in []json.RawMessage, out *Out, args []string) error {
		for _, raw := range in {
			var cs lfCase
			if err := json.Unmarshal(raw, &cs); err != nil {
				return err
			}
			var e lflow.Expr
			if err := json.Unmarshal(cs.E, &e); err != nil {
				return err
			}
			out.Write(map[string]string{"q": strings.TrimSpace(e.Render())})
		}
		return nil
	})
}
