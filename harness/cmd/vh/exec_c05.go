package main

// exec-c05: EXEC for the Exit family (C05).
// Every abstract case from GEN (cmd, --fail-on, --min-severity, --show-duplicates, list of requested
// problems) is realised with the real pint binary: one rule per requested problem, one config `rule{}`
// block per rule assigning the severity (rule/report, rule/label with a custom severity, or an
// expression that does not parse), `pint lint` in a scratch directory or `pint ci` in a scratch git
// repository whose feature branch adds the rule file. Recorded: exit status, the binary's own --json
// report projected to (rule, severity), the problem blocks printed on the console, the error message.
// No oracle logic: the verdict is TLC's (spec/ExitTrace.tla).

import (
	"bytes"
	"context"
	"encoding/json"
	"errors"
	"fmt"
	"os"
	"os/exec"
	"path/filepath"
	"regexp"
	"runtime"
	"sort"
	"strconv"
	"strings"
	"time"
)

type c05Req struct {
	Kind string `json:"kind"`
	Sev  string `json:"sev"`
	C    int    `json:"c"`
}

type c05Case struct {
	Cmd     string   `json:"cmd"`
	FailOn  string   `json:"failOn"`
	MinSev  string   `json:"minSev"`
	ShowDup bool     `json:"showDup"`
	Reports []c05Req `json:"reports"`
}

type c05Sev struct {
	Rule     int    `json:"rule"`
	Sev      string `json:"sev"`
	Reporter string `json:"reporter"`
}

type c05Shown struct {
	Rule int    `json:"rule"`
	Sev  string `json:"sev"`
	Dups int    `json:"dups"`
}

type c05Rec struct {
	Ev        string     `json:"ev"`
	ID        int        `json:"id"`
	Case      c05Case    `json:"case"`
	Exit      int        `json:"exit"`
	Written   bool       `json:"written"`
	JSON      []c05Sev   `json:"json"`
	Shown     []c05Shown `json:"shown"`
	Why       string     `json:"why"`
	FailCount int        `json:"failCount"`
	FailSev   string     `json:"failSev"`
	Panic     bool       `json:"panic"`
	Workers   int        `json:"workers"`
	Hidden    int        `json:"hidden"`
	OwnerProblems []string `json:"ownerProblems"`
}

var c05Broken = map[int]string{1: "sum(", 2: "foo{", 3: "1 +"}

func c05RulesFile(reps []c05Req) string {
	var b strings.Builder
	if len(reps) == 0 {
		b.WriteString("# no rules\n")
	}
	// three lines per rule: owner comment (or a filler comment for rules that must lack an owner), record, expr
	for k, r := range reps {
		expr := "vector(1)"
		if r.Kind == "syntax" {
			expr = c05Broken[r.C]
		}
		cmt := "# pint rule/owner bob"
		if r.Kind == "owner" {
			cmt = "# nobody owns this rule"
		}
		fmt.Fprintf(&b, "%s\n- record: r%d\n  expr: %s\n", cmt, k+1, expr)
	}
	return b.String()
}

func c05Config(reps []c05Req, ci bool) string {
	var b strings.Builder
	b.WriteString("parser {\n  relaxed = [\".*\"]\n}\nowners {\n  allowed = [\"bob\"]\n}\n")
	if ci {
		b.WriteString("ci {\n  baseBranch = \"main\"\n}\n")
	}
	for k, r := range reps {
		switch r.Kind {
		case "report":
			fmt.Fprintf(&b, "rule {\n  match {\n    name = \"r%d\"\n  }\n  report {\n    comment  = \"c%d\"\n    severity = \"%s\"\n  }\n}\n", k+1, r.C, r.Sev)
		case "label":
			fmt.Fprintf(&b, "rule {\n  match {\n    name = \"r%d\"\n  }\n  label \"t%d\" {\n    required = true\n    severity = \"%s\"\n  }\n}\n", k+1, r.C, r.Sev)
		case "twin":
			// a generic "label required" (warning) and a strict "label required with a value" block on the same rule
			fmt.Fprintf(&b, "rule {\n  match {\n    name = \"r%d\"\n  }\n  label \"t%d\" {\n    required = true\n    severity = \"warning\"\n  }\n}\n", k+1, r.C)
			fmt.Fprintf(&b, "rule {\n  match {\n    name = \"r%d\"\n  }\n  label \"t%d\" {\n    required = true\n    value    = \"x.*\"\n    severity = \"%s\"\n  }\n}\n", k+1, r.C, r.Sev)
		}
	}
	return b.String()
}

func c05Env(home string) []string {
	return []string{
		"PATH=" + os.Getenv("PATH"), "HOME=" + home, "LC_ALL=C", "TZ=UTC",
		"GIT_CONFIG_GLOBAL=/dev/null", "GIT_CONFIG_SYSTEM=/dev/null", "GIT_CONFIG_NOSYSTEM=1",
		"GIT_AUTHOR_NAME=pint", "GIT_AUTHOR_EMAIL=pint@example.com",
		"GIT_COMMITTER_NAME=pint", "GIT_COMMITTER_EMAIL=pint@example.com",
		"GIT_AUTHOR_DATE=2020-01-01T00:00:00Z", "GIT_COMMITTER_DATE=2020-01-01T00:00:00Z",
	}
}

func c05Git(dir string, env []string, args ...string) error {
	cmd := exec.Command("git", args...)
	cmd.Dir = dir
	cmd.Env = env
	if out, err := cmd.CombinedOutput(); err != nil {
		return fmt.Errorf("git %v: %v: %s", args, err, out)
	}
	return nil
}

var (
	c05HeadRe = regexp.MustCompile(`^(Information|Warning|Bug|Fatal): .* \((rule/report|rule/label|rule/owner|promql/syntax)\)$`)
	c05LocRe  = regexp.MustCompile("^  ---> rules\\.yml:[0-9-]+ -> `r([0-9]+)`(?: \\[\\+([0-9]+) duplicates\\])?$")
	c05ErrRe  = regexp.MustCompile(`level=ERROR msg="Execution completed with error\(s\)" err="(.*)"$`)
	c05CntRe  = regexp.MustCompile(`^found ([0-9]+) problem\(s\) with severity (\w+) or higher$`)
	c05HidRe  = regexp.MustCompile(`msg="([0-9]+) problem\(s\) not visible because of --min-severity=`)
)

// c05Run executes one pint process and projects its outputs.
func c05Run(pint, dir, jsonPath string, env []string, args []string, rec *c05Rec) error {
	os.Remove(jsonPath)
	ctx, cancel := context.WithTimeout(context.Background(), 60*time.Second)
	defer cancel()
	cmd := exec.CommandContext(ctx, pint, args...)
	cmd.Dir = dir
	cmd.Env = env
	var stderr, stdout bytes.Buffer
	cmd.Stderr = &stderr
	cmd.Stdout = &stdout
	err := cmd.Run()
	if ctx.Err() != nil {
		return fmt.Errorf("pint %v timed out", args)
	}
	rec.Exit = 0
	var ee *exec.ExitError
	if errors.As(err, &ee) {
		rec.Exit = ee.ExitCode()
	} else if err != nil {
		return err
	}
	se := stderr.String()
	rec.Panic = strings.Contains(se, "panic:") || strings.Contains(se, "SIGSEGV") || strings.Contains(se, "fatal error:")
	rec.JSON = []c05Sev{}
	rec.OwnerProblems = []string{}
	rec.Hidden = 0
	rec.Shown = []c05Shown{}
	rec.Why = "ok"
	rec.FailSev = "none"
	// ci creates the report file before it parses --fail-on: an empty file is "no report written"
	if b, err := os.ReadFile(jsonPath); err == nil && len(bytes.TrimSpace(b)) > 0 {
		var reps []struct {
			Severity string `json:"severity"`
			Reporter string `json:"reporter"`
			Problem  string `json:"problem"`
			Lines    []int  `json:"lines"`
		}
		if err := json.Unmarshal(b, &reps); err != nil {
			return fmt.Errorf("json report of %v: %v", args, err)
		}
		rec.Written = true
		for _, r := range reps {
			if len(r.Lines) == 0 {
				return fmt.Errorf("json report without lines: %s", b)
			}
			rec.JSON = append(rec.JSON, c05Sev{Rule: (r.Lines[0] + 2) / 3, Sev: r.Severity, Reporter: r.Reporter})
			if r.Reporter == "rule/owner" {
				rec.OwnerProblems = append(rec.OwnerProblems, r.Problem)
			}
		}
	}
	lines := strings.Split(se, "\n")
	for i, ln := range lines {
		if m := c05HeadRe.FindStringSubmatch(ln); m != nil && i+1 < len(lines) {
			if l := c05LocRe.FindStringSubmatch(lines[i+1]); l != nil {
				k, _ := strconv.Atoi(l[1])
				d := 0
				if l[2] != "" {
					d, _ = strconv.Atoi(l[2])
				}
				rec.Shown = append(rec.Shown, c05Shown{Rule: k, Sev: m[1], Dups: d})
			}
		}
		if m := c05HidRe.FindStringSubmatch(ln); m != nil {
			rec.Hidden, _ = strconv.Atoi(m[1])
		}
		if m := c05ErrRe.FindStringSubmatch(ln); m != nil {
			msg := strings.ReplaceAll(m[1], `\"`, `"`)
			switch {
			case strings.HasPrefix(msg, "invalid --fail-on value"):
				rec.Why = "invalid --fail-on"
			case strings.HasPrefix(msg, "invalid --min-severity value"):
				rec.Why = "invalid --min-severity"
			case msg == "problems found":
				rec.Why = "problems found"
			case c05CntRe.MatchString(msg):
				c := c05CntRe.FindStringSubmatch(msg)
				rec.Why = "found problems"
				rec.FailCount, _ = strconv.Atoi(c[1])
				rec.FailSev = c[2]
			default:
				rec.Why = "other: " + msg
			}
		}
	}
	return nil
}

func c05Args(cs c05Case, jsonPath string, workers int) []string {
	args := []string{"--offline", "--no-color"}
	if workers > 0 {
		args = append(args, "--workers="+strconv.Itoa(workers))
	}
	if cs.ShowDup {
		args = append(args, "--show-duplicates")
	}
	args = append(args, cs.Cmd)
	for _, r := range cs.Reports {
		if r.Kind == "owner" {
			args = append(args, "--require-owner")
			break
		}
	}
	if cs.FailOn != "UNSET" {
		args = append(args, "--fail-on="+cs.FailOn)
	}
	if cs.MinSev != "UNSET" && cs.Cmd == "lint" {
		args = append(args, "--min-severity="+cs.MinSev)
	}
	args = append(args, "--json="+jsonPath)
	if cs.Cmd == "lint" {
		args = append(args, "rules.yml")
	}
	return args
}

func init() {
	// args: <path to the pint binary> [workers values, comma separated; 0 = default]
	register("exec-c05", func(in []json.RawMessage, out *Out, args []string) error {
		if len(args) < 1 {
			return errors.New("usage: exec-c05 -in cases -out trace <pint binary> [workers,...]")
		}
		pint := args[0]
		workerVals := []int{0}
		if len(args) > 1 {
			workerVals = nil
			for _, w := range strings.Split(args[1], ",") {
				n, err := strconv.Atoi(w)
				if err != nil {
					return err
				}
				workerVals = append(workerVals, n)
			}
		}
		cases := make([]c05Case, len(in))
		for i, raw := range in {
			if err := json.Unmarshal(raw, &cases[i]); err != nil {
				return fmt.Errorf("case %d: %v", i+1, err)
			}
		}
		// one scratch directory / repository per (cmd, list of problems); all flag combinations run in it
		groups := map[string][]int{}
		var keys []string
		for i, c := range cases {
			b, _ := json.Marshal(c.Reports)
			k := c.Cmd + string(b)
			if _, ok := groups[k]; !ok {
				keys = append(keys, k)
			}
			groups[k] = append(groups[k], i)
		}
		sort.Strings(keys)
		root, err := os.MkdirTemp(shmDir(), "vh-c05-")
		if err != nil {
			return err
		}
		defer os.RemoveAll(root)
		errs := make([]error, len(keys))
		parallel(len(keys), runtime.NumCPU(), func(g int) {
			idx := groups[keys[g]]
			first := cases[idx[0]]
			dir := filepath.Join(root, strconv.Itoa(g))
			work := filepath.Join(dir, "w")
			if err := os.MkdirAll(work, 0o755); err != nil {
				errs[g] = err
				return
			}
			defer os.RemoveAll(dir)
			env := c05Env(dir)
			ci := first.Cmd == "ci"
			write := func(name, content string) error {
				return os.WriteFile(filepath.Join(work, name), []byte(content), 0o644)
			}
			if err := write(".pint.hcl", c05Config(first.Reports, ci)); err != nil {
				errs[g] = err
				return
			}
			if ci {
				steps := [][]string{{"init", "-q", "--initial-branch=main", "."}}
				for _, s := range steps {
					if err := c05Git(work, env, s...); err != nil {
						errs[g] = err
						return
					}
				}
				if err := write("README", "base\n"); err != nil {
					errs[g] = err
					return
				}
				for _, s := range [][]string{{"add", "."}, {"commit", "-q", "-m", "base"}, {"checkout", "-q", "-b", "feature"}} {
					if err := c05Git(work, env, s...); err != nil {
						errs[g] = err
						return
					}
				}
			}
			if err := write("rules.yml", c05RulesFile(first.Reports)); err != nil {
				errs[g] = err
				return
			}
			if ci {
				for _, s := range [][]string{{"add", "."}, {"commit", "-q", "-m", "add rules"}} {
					if err := c05Git(work, env, s...); err != nil {
						errs[g] = err
						return
					}
				}
			}
			jsonPath := filepath.Join(dir, "report.json")
			for _, i := range idx {
				for _, w := range workerVals {
					rec := c05Rec{Ev: "Run", ID: i + 1, Case: cases[i], Workers: w}
					if err := c05Run(pint, work, jsonPath, env, c05Args(cases[i], jsonPath, w), &rec); err != nil {
						errs[g] = err
						return
					}
					out.Write(rec)
				}
			}
		})
		for _, e := range errs {
			if e != nil {
				return e
			}
		}
		return nil
	})
}
