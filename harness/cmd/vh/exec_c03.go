package main

// exec-githist: EXEC for the GitHistory family (C03 change classification, C20 removed-rule dependants).
// Every abstract history from GEN (fork tree + one file-level op per commit) becomes a REAL git repository
// (branch main, feature branch, one real commit per op, deterministic identity and dates); then the REAL pint
// binary runs `pint --offline ci --base-branch=main --json` in it under the marker configuration
// (one rule/report marker per change state). Recorded per case:
//   Reset   the fork tree
//   Commit  the abstract op and the name-status line real git printed for the commit (what git.Changes reads)
//   BaseAdv a commit made on main after the fork
//   Finish  marker per (path, first, last) and the rule/dependency problems with their dependants lists
// No oracle logic: the comparison with the reference classification happens in spec/GitHistoryTrace.tla.

import (
	"encoding/json"
	"errors"
	"fmt"
	"os"
	"path/filepath"
	"runtime"
	"time"

	"github.com/cloudflare/pint/verifharness/gitrepo"
)

var ghPaths = []string{"a.yml", "b.yml", "c.yml", "drafts/d.yml"}

type ghNS struct {
	Status string `json:"status"`
	Src    string `json:"src"`
	Dst    string `json:"dst"`
}

type ghOp struct {
	Op   string       `json:"op"`
	NS   ghNS         `json:"ns"`
	File gitrepo.File `json:"file"`
}

type ghCase struct {
	Fork map[string]gitrepo.File `json:"fork"`
	Log  []ghOp                  `json:"log"`
}

func ghRun(pint, cfg string, id int, raw json.RawMessage) ([]map[string]any, error) {
	type rec = map[string]any
	var cs ghCase
	if err := json.Unmarshal(raw, &cs); err != nil {
		return nil, err
	}
	var rawCase struct {
		Log []json.RawMessage `json:"log"`
	}
	_ = json.Unmarshal(raw, &rawCase)
	// the trace always names the three paths of the family; files without rules carry an empty list
	forkOut := map[string]gitrepo.File{}
	for _, p := range ghPaths {
		f := cs.Fork[p]
		if f.Rules == nil {
			f.Rules = []gitrepo.Rule{}
		}
		forkOut[p] = f
	}
	recs := []rec{{"ev": "Reset", "id": id, "fork": forkOut}}

	repo, err := gitrepo.New(shmDir())
	if err != nil {
		return nil, err
	}
	defer repo.Close()
	if err := repo.Write("README", "scratch repository of the verification harness\n"); err != nil {
		return nil, err
	}
	mainTree := map[string]gitrepo.File{}
	headTree := map[string]gitrepo.File{}
	for p, f := range cs.Fork {
		mainTree[p] = f
		headTree[p] = f
		if f.Present {
			if err := repo.Write(p, gitrepo.Render(f)); err != nil {
				return nil, err
			}
		}
	}
	if err := repo.Commit("fork point"); err != nil {
		return nil, err
	}
	if _, err := repo.Git("checkout", "-q", "-b", "feature"); err != nil {
		return nil, err
	}
	nBranch, nBase := 0, 0
	for _, op := range cs.Log {
		switch op.NS.Status {
		case "B":
			nBase++
			if _, err := repo.Git("checkout", "-q", "main"); err != nil {
				return nil, err
			}
			f := mainTree[op.NS.Src]
			f.Present = true
			f.Rules = append(append([]gitrepo.Rule{}, f.Rules...),
				gitrepo.Rule{Kind: "rec", Name: fmt.Sprintf("zz%d", nBase), Body: "v1", Lab: "l1", Cmt: "none", Ext: "x0"})
			mainTree[op.NS.Src] = f
			if err := repo.Write(op.NS.Src, gitrepo.Render(f)); err != nil {
				return nil, err
			}
			if err := repo.Commit(fmt.Sprintf("base advance %d", nBase)); err != nil {
				return nil, err
			}
			if _, err := repo.Git("checkout", "-q", "feature"); err != nil {
				return nil, err
			}
		case "A", "M":
			nBranch++
			headTree[op.NS.Dst] = op.File
			if err := repo.Write(op.NS.Dst, gitrepo.Render(op.File)); err != nil {
				return nil, err
			}
			if err := repo.Commit(fmt.Sprintf("%d %s", nBranch, op.Op)); err != nil {
				return nil, err
			}
		case "D":
			nBranch++
			delete(headTree, op.NS.Src)
			if err := os.Remove(filepath.Join(repo.Dir, op.NS.Src)); err != nil {
				return nil, err
			}
			if err := repo.Commit(fmt.Sprintf("%d %s", nBranch, op.Op)); err != nil {
				return nil, err
			}
		case "R":
			nBranch++
			headTree[op.NS.Dst] = headTree[op.NS.Src]
			delete(headTree, op.NS.Src)
			if err := os.MkdirAll(filepath.Dir(filepath.Join(repo.Dir, op.NS.Dst)), 0o755); err != nil {
				return nil, err
			}
			if _, err := repo.Git("mv", op.NS.Src, op.NS.Dst); err != nil {
				return nil, err
			}
			if err := repo.Commit(fmt.Sprintf("%d %s", nBranch, op.Op)); err != nil {
				return nil, err
			}
		default:
			return nil, fmt.Errorf("case %d: unknown status %q", id, op.NS.Status)
		}
	}
	log, err := repo.BranchLog("main")
	if err != nil {
		return nil, err
	}
	if len(log) != nBranch {
		return nil, fmt.Errorf("case %d: git log shows %d commits, %d made", id, len(log), nBranch)
	}
	k := 0
	for i, op := range cs.Log {
		if op.NS.Status == "B" {
			recs = append(recs, rec{"ev": "BaseAdv", "id": id, "path": op.NS.Src})
			continue
		}
		obs := []ghNS{}
		for _, ns := range log[k] {
			st := ns.Status
			if st == "R" && ns.Score != "100" {
				st = "R" + ns.Score
			}
			obs = append(obs, ghNS{st, ns.Src, ns.Dst})
		}
		k++
		recs = append(recs, rec{"ev": "Commit", "id": id, "op": rawCase.Log[i], "obs": obs})
	}
	res := repo.RunCI(pint, cfg, "main", 60*time.Second)
	if res.Err != "" {
		// run once more: only a reproducible failure is recorded as such
		res2 := repo.RunCI(pint, cfg, "main", 60*time.Second)
		if res2.Err == "" {
			return nil, fmt.Errorf("case %d: pint failed once (%s) and then succeeded", id, res.Err)
		}
		recs = append(recs, rec{"ev": "Failed", "id": id, "err": res2.Err, "stderr": res2.Stderr})
		return recs, nil
	}
	markers := res.Markers
	if markers == nil {
		markers = []gitrepo.Marker{}
	}
	deps := res.Deps
	if deps == nil {
		deps = []gitrepo.DepReport{}
	}
	other := res.Other
	if other == nil {
		other = []string{}
	}
	// where the harness itself put the rules of the HEAD files (counted while rendering)
	layout := []map[string]any{}
	for _, p := range ghPaths {
		if f, ok := headTree[p]; ok && f.Present {
			_, spans := gitrepo.RenderSpans(f)
			for k, sp := range spans {
				layout = append(layout, map[string]any{"path": p, "k": k + 1, "first": sp.First, "last": sp.Last})
			}
		}
	}
	recs = append(recs, rec{"ev": "Finish", "id": id, "rc": res.RC, "markers": markers, "deps": deps, "other": other, "layout": layout})
	return recs, nil
}

func init() {
	register("exec-githist", func(in []json.RawMessage, out *Out, args []string) error {
		pint := os.Getenv("VH_PINT")
		if pint == "" {
			return errors.New("VH_PINT (path of the pint binary built from the tree under test) is not set")
		}
		dir, err := os.MkdirTemp(shmDir(), "githist-cfg-")
		if err != nil {
			return err
		}
		defer os.RemoveAll(dir)
		cfg := filepath.Join(dir, "pint.hcl")
		if err := os.WriteFile(cfg, []byte(gitrepo.MarkerConfig), 0o644); err != nil {
			return err
		}
		results := make([][]map[string]any, len(in))
		errs := make([]error, len(in))
		parallel(len(in), runtime.NumCPU(), func(i int) {
			results[i], errs[i] = ghRun(pint, cfg, i+1, in[i])
		})
		for _, e := range errs {
			if e != nil {
				return e
			}
		}
		for _, rs := range results {
			for _, r := range rs {
				out.Write(r)
			}
		}
		return nil
	})
}
