package main

// exec-githist: EXEC for the GitHistory family (C03 change classification, C20 removed-rule dependants).
// Every abstract history from GEN (fork tree + one file-level op per commit) becomes a REAL git repository
// (branch main, feature branch, one real commit per op, deterministic identity and dates); then the REAL pint
// binary runs `pint --offline ci --base-branch=main --json` in it under the marker configuration
// (one rule/report marker per change state). Recorded per case:
//   Reset   the fork tree
//   Commit  the abstract op and the name-status line real git printed for the commit (what git.Changes reads)
//   BaseAdv a commit made on main after the fork
//   Finish  marker per (path, first, last) and the rule/dependency problems with their dependants lists
// No oracle logic: the comparison with the reference classification happens in spec/GitHistoryTrace.tla.

import (
	"encoding/json"
	"errors"
	"fmt"
	"os"
	"path/filepath"
	"runtime"
	"strings"
	"time"

	"github.com/cloudflare/pint/verifharness/gitrepo"
)

var ghPaths = []string{"a.yml", "b.yml", "c.yml", "drafts/d.yml"}

type ghNS struct {
	Status string `json:"status"`
	Src    string `json:"src"`
	Dst    string `json:"dst"`
}

type ghPart struct {
	NS   ghNS         `json:"ns"`
	File gitrepo.File `json:"file"`
}

type ghOp struct {
	Op   string                  `json:"op"`
	NS   ghNS                    `json:"ns"`
	File gitrepo.File            `json:"file"`
	More []ghPart                `json:"more"`
	Tree map[string]gitrepo.File `json:"tree"` // MergeBase: the merged tree
}

type ghCase struct {
	Fork map[string]gitrepo.File `json:"fork"`
	Log  []ghOp                  `json:"log"`
}

func ghRun(pint, cfg string, id int, raw json.RawMessage) ([]map[string]any, error) {
	type rec = map[string]any
	var cs ghCase
	if err := json.Unmarshal(raw, &cs); err != nil {
		return nil, err
	}
	var rawCase struct {
		Log []json.RawMessage `json:"log"`
	}
	_ = json.Unmarshal(raw, &rawCase)
	// the trace always names the three paths of the family; files without rules carry an empty list
	forkOut := map[string]gitrepo.File{}
	for _, p := range ghPaths {
		f := cs.Fork[p]
		if f.Rules == nil {
			f.Rules = []gitrepo.Rule{}
		}
		forkOut[p] = f
	}
	recs := []rec{{"ev": "Reset", "id": id, "fork": forkOut}}

	repo, err := gitrepo.New(shmDir())
	if err != nil {
		return nil, err
	}
	defer repo.Close()
	if err := repo.Write("README", "scratch repository of the verification harness\n"); err != nil {
		return nil, err
	}
	headTree := map[string]gitrepo.File{}
	for p, f := range cs.Fork {
		headTree[p] = f
		if f.Present {
			if err := repo.Write(p, gitrepo.Render(f)); err != nil {
				return nil, err
			}
		}
	}
	if err := repo.Commit("fork point"); err != nil {
		return nil, err
	}
	if _, err := repo.Git("checkout", "-q", "-b", "feature"); err != nil {
		return nil, err
	}
	nBranch, nBase := 0, 0
	applyPart := func(pt ghPart) error {
		switch pt.NS.Status {
		case "A", "M":
			headTree[pt.NS.Dst] = pt.File
			return repo.Write(pt.NS.Dst, gitrepo.Render(pt.File))
		case "D":
			delete(headTree, pt.NS.Src)
			return os.Remove(filepath.Join(repo.Dir, pt.NS.Src))
		case "R":
			headTree[pt.NS.Dst] = headTree[pt.NS.Src]
			delete(headTree, pt.NS.Src)
			if err := os.MkdirAll(filepath.Dir(filepath.Join(repo.Dir, pt.NS.Dst)), 0o755); err != nil {
				return err
			}
			_, err := repo.Git("mv", pt.NS.Src, pt.NS.Dst)
			return err
		}
		return fmt.Errorf("case %d: unknown status %q", id, pt.NS.Status)
	}
	for _, op := range cs.Log {
		switch op.NS.Status {
		case "B": // commit on main: the op carries the new content of the file on main
			nBase++
			if _, err := repo.Git("checkout", "-q", "main"); err != nil {
				return nil, err
			}
			if err := repo.Write(op.NS.Src, gitrepo.Render(op.File)); err != nil {
				return nil, err
			}
			if err := repo.Commit(fmt.Sprintf("base advance %d", nBase)); err != nil {
				return nil, err
			}
			if _, err := repo.Git("checkout", "-q", "feature"); err != nil {
				return nil, err
			}
		case "G": // git merge main; whatever git makes of it, the result (and conflict resolution) is the op's tree
			_, _ = repo.Git("merge", "--no-commit", "--no-ff", "main")
			for _, p := range ghPaths {
				f, ok := op.Tree[p]
				if ok && f.Present {
					headTree[p] = f
					if err := repo.Write(p, gitrepo.Render(f)); err != nil {
						return nil, err
					}
				} else {
					delete(headTree, p)
					_ = os.Remove(filepath.Join(repo.Dir, p))
				}
			}
			if err := repo.Commit("merge main"); err != nil {
				return nil, err
			}
			if out, err := repo.Git("rev-list", "--parents", "-n", "1", "HEAD"); err != nil || len(strings.Fields(out)) != 3 {
				return nil, fmt.Errorf("case %d: merge commit does not have two parents: %q %v", id, out, err)
			}
		default:
			nBranch++
			if err := applyPart(ghPart{op.NS, op.File}); err != nil {
				return nil, err
			}
			for _, pt := range op.More {
				if err := applyPart(pt); err != nil {
					return nil, err
				}
			}
			if err := repo.Commit(fmt.Sprintf("%d %s", nBranch, op.Op)); err != nil {
				return nil, err
			}
		}
	}
	log, err := repo.BranchLog("main")
	if err != nil {
		return nil, err
	}
	if len(log) != nBranch {
		return nil, fmt.Errorf("case %d: git log shows %d commits, %d made", id, len(log), nBranch)
	}
	k := 0
	for i, op := range cs.Log {
		if op.NS.Status == "B" {
			recs = append(recs, rec{"ev": "BaseAdv", "id": id, "op": rawCase.Log[i]})
			continue
		}
		if op.NS.Status == "G" {
			recs = append(recs, rec{"ev": "Merge", "id": id, "op": rawCase.Log[i]})
			continue
		}
		obs := []ghNS{}
		for _, ns := range log[k] {
			st := ns.Status
			if st == "R" && ns.Score != "100" {
				st = "R" + ns.Score
			}
			obs = append(obs, ghNS{st, ns.Src, ns.Dst})
		}
		k++
		recs = append(recs, rec{"ev": "Commit", "id": id, "op": rawCase.Log[i], "obs": obs})
	}
	res := repo.RunCI(pint, cfg, "main", 60*time.Second)
	if res.Err != "" {
		// run once more: only a reproducible failure is recorded as such
		res2 := repo.RunCI(pint, cfg, "main", 60*time.Second)
		if res2.Err == "" {
			return nil, fmt.Errorf("case %d: pint failed once (%s) and then succeeded", id, res.Err)
		}
		recs = append(recs, rec{"ev": "Failed", "id": id, "err": res2.Err, "stderr": res2.Stderr})
		return recs, nil
	}
	markers := res.Markers
	if markers == nil {
		markers = []gitrepo.Marker{}
	}
	deps := res.Deps
	if deps == nil {
		deps = []gitrepo.DepReport{}
	}
	other := res.Other
	if other == nil {
		other = []string{}
	}
	parse := res.Parse
	if parse == nil {
		parse = []gitrepo.ParseReport{}
	}
	// where the harness itself put the rules of the HEAD files (counted while rendering)
	layout := []map[string]any{}
	for _, p := range ghPaths {
		if f, ok := headTree[p]; ok && f.Present {
			_, spans := gitrepo.RenderSpans(f)
			for k, sp := range spans {
				layout = append(layout, map[string]any{"path": p, "k": k + 1, "first": sp.First, "last": sp.Last})
			}
		}
	}
	recs = append(recs, rec{"ev": "Finish", "id": id, "rc": res.RC, "markers": markers, "deps": deps, "other": other, "parse": parse, "layout": layout})
	return recs, nil
}

func init() {
	register("exec-githist", func(in []json.RawMessage, out *Out, args []string) error {
		pint := os.Getenv("VH_PINT")
		if pint == "" {
			return errors.New("VH_PINT (path of the pint binary built from the tree under test) is not set")
		}
		dir, err := os.MkdirTemp(shmDir(), "githist-cfg-")
		if err != nil {
			return err
		}
		defer os.RemoveAll(dir)
		cfg := filepath.Join(dir, "pint.hcl")
		if err := os.WriteFile(cfg, []byte(gitrepo.MarkerConfig), 0o644); err != nil {
			return err
		}
		results := make([][]map[string]any, len(in))
		errs := make([]error, len(in))
		parallel(len(in), runtime.NumCPU(), func(i int) {
			results[i], errs[i] = ghRun(pint, cfg, i+1, in[i])
		})
		for _, e := range errs {
			if e != nil {
				return e
			}
		}
		for _, rs := range results {
			for _, r := range rs {
				out.Write(r)
			}
		}
		return nil
	})
}
