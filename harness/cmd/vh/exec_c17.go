package main

// exec-c17: EXEC for the CommentSync family (C17), in-process part.
// Every abstract case (platform, budget, initial comments, sequence of runs = report set + variant) is
// concretised into real rule files; the real lint pipeline produces the real reports, and the real
// reporter.Submit reconciles them against a stateful in-memory platform (c17Mem) whose IsEqual /
// CanCreate / CanDelete are the real GitLabReporter / GithubReporter methods. What Submit asked the
// platform to do, and the platform's comments before/after, are recorded for TLC to judge.
// No judgement happens here: texts are interned (equal modulo surrounding newlines <=> same id) and
// projected to the problem summaries they spell out.

import (
	"context"
	"errors"
	"encoding/json"
	"fmt"
	"os"
	"path/filepath"
	"runtime"
	"strings"
	"sync"
	"time"

	"github.com/google/go-github/v71/github"

	"github.com/cloudflare/pint/internal/checks"
	"github.com/cloudflare/pint/internal/discovery"
	"github.com/cloudflare/pint/internal/reporter"
	"github.com/cloudflare/pint/verifharness/pipe"
)

type c17Text struct {
	G string   `json:"g"`
	M []string `json:"m"`
	S int      `json:"s"`
}
type c17Seed struct {
	Path string  `json:"path"`
	Line int     `json:"line"`
	Text c17Text `json:"text"`
	Nl   int     `json:"nl"`
	Mine bool    `json:"mine"`
}
type c17Var struct {
	Shift int    `json:"shift"`
	Mod   string `json:"mod"`
}
type c17Fault struct {
	Op string `json:"op"` // none | list | create | delete | summary
	K  int    `json:"k"`  // the k-th call of that kind in the run fails
}
type c17Run struct {
	Reports []string `json:"reports"`
	Var     c17Var   `json:"var"`
	Fault   c17Fault `json:"fault"`
}
type c17Case struct {
	Plat  string    `json:"plat"`
	Max   int       `json:"max"`
	Strip bool      `json:"strip"`
	Pad   int       `json:"pad"` // REST part only: old review comments of somebody else that precede all others
	Showdup bool    `json:"showdup"` // --show-duplicates: problems folded by Summary.Dedup get their own comments
	Padf  int       `json:"padf"` // REST part only: other changed files listed before the rule files
	Seeds []c17Seed `json:"seeds"`
	Runs  []c17Run  `json:"runs"`
}

// ---- the problem universe of spec/CommentSync.tla, as rule files
var c17Summary = map[string]string{
	"S1": "redundant regexp", "S2": "redundant regexp anchors", "S3": "template uses non-existent label",
	"S5": "use humanize filters for the results", "S6": "use humanize filters for the results",
	"S7": "rule results used by another rule",
}

// P5 and P6 have the same summary; their comments differ in the annotation line they quote
var c17Quote = map[string]string{"S5": "rate is {{ $value }}", "S6": "it is {{ $value }}"}
var c17ProbSum = map[string]string{"P1": "S1", "P2": "S2", "P3": "S3", "P4": "S2", "P5": "S5", "P6": "S6", "P7": "S7"}
var c17ProbFile = map[string]string{"P1": "F1", "P2": "F1", "P3": "F1", "P4": "F2", "P5": "F1", "P6": "F1", "P7": "F2"}

// P7: the pull request removes this recording rule (lines 8-9 of the old rules2.yml) while alert B2 still uses it
var c17Removed = []string{"  - record: job:up:count", "    expr: count(up) by(job)"}
var c17FileName = map[string]string{"F1": "rules1.yml", "F2": "rules2.yml"}

func c17Pick(on bool, a, b string) string {
	if on {
		return a
	}
	return b
}

func c17Render(file string, on map[string]bool, shift int) string {
	var l []string
	if file == "F1" {
		for i := 0; i < shift; i++ {
			l = append(l, "# rules of team one")
		}
		l = append(l,
			"groups:", "- name: g1", "  rules:", "  - alert: A1", "    expr: |",
			"      up{"+c17Pick(on["P2"], `job=~"^foo$"`, `job="foo"`)+"}",
			"      * on() group_left()",
			"      up{"+c17Pick(on["P1"], `instance=~"bar"`, `instance="bar"`)+"} > 0",
			"    annotations:", "      summary: x",
			"  - alert: A2", "    expr: sum(up) by(job) > 0", "    annotations:",
			"      summary: '{{ $labels."+c17Pick(on["P3"], "instance", "job")+" }}'",
			"  - alert: A3", "    expr: rate(errors_total[5m]) > 0", "    annotations:",
			"      summary: 'rate is {{ $value"+c17Pick(on["P5"], "", " | humanize")+" }}'",
			"      details: 'it is {{ $value"+c17Pick(on["P6"], "", " | humanize")+" }}'")
	} else {
		l = append(l,
			"groups:", "- name: g2", "  rules:", "  - alert: B1",
			"    expr: up{"+c17Pick(on["P4"], `job=~"^baz$"`, `job="baz"`)+"} == 0",
			"    annotations:", "      summary: y")
		if on["__old"] {
			l = append(l, c17Removed...)
		}
		l = append(l, "  - alert: B2", "    expr: job:up:count == 0", "    annotations:", "      summary: z")
	}
	return strings.Join(l, "\n") + "\n"
}

// summaries a comment body spells out (a projection: whole lines only)
func c17Carries(text string) []string {
	out := []string{}
	for _, code := range []string{"S1", "S2", "S3", "S7"} {
		s := c17Summary[code]
		for _, ln := range strings.Split(text, "\n") {
			if ln == s || ln == "<summary>"+s+"</summary>" {
				out = append(out, code)
				break
			}
		}
	}
	for _, code := range []string{"S5", "S6"} {
		if strings.Contains(text, c17Summary[code]) && strings.Contains(text, c17Quote[code]) {
			out = append(out, code)
		}
	}
	return out
}

func c17Nl(text string) int { return len(text) - len(strings.TrimRight(text, "\n")) }

// ---- one lint run of the real pipeline over the two files
type c17Lint struct {
	summary reporter.Summary
	probs   []string         // problem ids found, in report order
	mod     map[string][]int // F1/F2 -> modified lines used for the diff shown by the platform
	total   map[string]int
	extra   []string // reports outside the universe (must stay empty)
	// lines the pull request removed from rules2.yml: removedN lines in front of new line removedAt
	removedAt, removedN int
}

func c17DoLint(dir string, on map[string]bool, v c17Var) (c17Lint, error) {
	out := c17Lint{mod: map[string][]int{}, total: map[string]int{}}
	files := map[string][]byte{}
	for _, f := range []string{"F1", "F2"} {
		sh := 0
		if f == "F1" {
			sh = v.Shift
		}
		txt := c17Render(f, on, sh)
		files[c17FileName[f]] = []byte(txt)
		out.total[f] = strings.Count(txt, "\n")
	}
	opts := pipe.Opts{Strict: true, Offline: true, Command: "ci", State: "modified"}
	var removed []discovery.Entry
	if on["P7"] {
		// the old revision of rules2.yml still has the recording rule: its entry, marked Removed, is what
		// `pint ci` adds to the entries of the new revision (discovery.GitBranchFinder)
		oldOn := map[string]bool{"__old": true, "P4": on["P4"]}
		old := pipe.Lint(dir, map[string][]byte{"rules2.yml": []byte(c17Render("F2", oldOn, 0))}, []string{"rules2.yml"}, opts)
		for _, e := range old.RawEntries {
			if e.Rule.RecordingRule != nil {
				e.State = discovery.Removed
				removed = append(removed, e)
			}
		}
		if len(removed) != 1 {
			return out, fmt.Errorf("old revision: %d recording rules (panic=%q find=%q)", len(removed), old.Panic, old.FindErr)
		}
	}
	res := pipe.Lint(dir, files, []string{"rules1.yml", "rules2.yml"}, opts)
	if res.Panic != "" || res.FindErr != "" || res.CfgErr != "" {
		return out, fmt.Errorf("pipeline: panic=%q find=%q cfg=%q", res.Panic, res.FindErr, res.CfgErr)
	}
	if len(removed) > 0 {
		cfg, err := pipe.LoadConfig(dir, "")
		if err != nil {
			return out, err
		}
		cfg.DisableOnlineChecks()
		res = pipe.RunChecks(cfg, append(res.RawEntries, removed...), opts, dir)
		if res.Panic != "" || res.CfgErr != "" {
			return out, fmt.Errorf("pipeline with removed rule: panic=%q cfg=%q", res.Panic, res.CfgErr)
		}
		out.removedAt, out.removedN = 8, len(c17Removed)
	}
	fileOf := func(p string) string {
		if filepath.Base(p) == "rules1.yml" {
			return "F1"
		}
		return "F2"
	}
	seen := map[string]map[int]bool{"F1": {}, "F2": {}}
	for _, e := range res.RawEntries {
		if e.State == discovery.Removed {
			continue
		}
		f := fileOf(e.Path.Name)
		for _, l := range e.ModifiedLines {
			if !seen[f][l] {
				seen[f][l] = true
				out.mod[f] = append(out.mod[f], l)
			}
		}
	}
	if v.Mod == "first" {
		out.mod["F1"] = []int{6 + v.Shift}
	}
	s := reporter.NewSummary(nil)
	for _, rr := range res.Raw {
		f := fileOf(rr.Path.Name)
		if f == "F1" && v.Mod == "first" {
			rr.ModifiedLines = []int{6 + v.Shift}
		}
		id := ""
		for p, sc := range c17ProbSum {
			if c17ProbFile[p] == f && c17Summary[sc] == rr.Problem.Summary {
				id = p
			}
		}
		if id == "P5" || id == "P6" { // same summary: told apart by the annotation line their range ends on
			id = "P5"
			if rr.Problem.Lines.Last-rr.Problem.Lines.First == 3 {
				id = "P6"
			}
		}
		if id == "" {
			out.extra = append(out.extra, f+":"+rr.Problem.Reporter+":"+rr.Problem.Summary)
		}
		out.probs = append(out.probs, id)
		s.Report(rr)
	}
	// what cmd/pint/ci.go does before handing the summary to the reporters
	s.SortReports()
	s.Dedup()
	out.summary = s
	return out, nil
}

func (lr c17Lint) patch(f string) string {
	if f == "F2" {
		return c17Patch(lr.total[f], lr.mod[f], lr.removedAt, lr.removedN)
	}
	return c17Patch(lr.total[f], lr.mod[f], 0, 0)
}

func c17Patch(total int, mod []int, removedAt, removedN int) string {
	m := map[int]bool{}
	for _, l := range mod {
		m[l] = true
	}
	var b strings.Builder
	fmt.Fprintf(&b, "@@ -1,%d +1,%d @@\n", total, total)
	for i := 1; i <= total; i++ {
		if i == removedAt {
			for k := 0; k < removedN; k++ {
				b.WriteString("-removed\n")
			}
		}
		if m[i] {
			b.WriteString("+line\n")
		} else {
			b.WriteString(" line\n")
		}
	}
	return b.String()
}

// ---- the in-memory platform
type c17Comment struct {
	ID   int
	Path string
	Line int
	Text string
	Mine bool
}
type c17Call struct {
	Op string `json:"op"`
	A  int    `json:"a"`
	B  int    `json:"b"`
}

type c17Mem struct {
	plat    string
	strip   bool
	gl      reporter.GitLabReporter
	gh      reporter.GithubReporter
	dst     any
	store   []c17Comment
	nextID  int
	before  []c17Comment
	listed  []int
	pending []reporter.PendingComment
	usedP   map[int]bool
	calls   []c17Call
	creates []c17Comment
	deleted []int
	isEqual int
	fault   c17Fault
	nCreate int // Create / Delete calls of this run
	nDelete int
	hit     bool
	nerrs   int
}

var errC17Injected = errors.New("injected platform failure")

func (m *c17Mem) Describe() string { return "verif-" + m.plat }
func (m *c17Mem) Destinations(context.Context) ([]any, error) {
	return []any{m.dst}, nil
}
func (m *c17Mem) Summary(_ context.Context, _ any, _ reporter.Summary, errs []error) error {
	m.nerrs = len(errs)
	if m.fault.Op == "summary" {
		m.hit = true
		m.calls = append(m.calls, c17Call{"summary", len(errs), 2})
		return errC17Injected
	}
	m.calls = append(m.calls, c17Call{"summary", len(errs), 0})
	return nil
}
func (m *c17Mem) posBefore(id int) int {
	for k, c := range m.before {
		if c.ID == id {
			return k + 1
		}
	}
	return 0
}
func (m *c17Mem) List(context.Context, any) ([]reporter.ExistingComment, error) {
	m.before = append([]c17Comment{}, m.store...)
	if m.fault.Op == "list" {
		m.hit = true
		m.calls = append(m.calls, c17Call{"list", 0, 2})
		return nil, errC17Injected
	}
	out := []reporter.ExistingComment{}
	for k, c := range m.store {
		if m.plat == "gitlab" && !c.Mine {
			continue // GitLab: only notes written by the current user are returned by GitLabReporter.List
		}
		m.listed = append(m.listed, k+1)
		out = append(out, reporter.VerifNewExistingComment(c.ID, c.Path, c.Text, c.Line))
	}
	return out, nil
}
func (m *c17Mem) Create(_ context.Context, dst any, p reporter.PendingComment) error {
	path, text, line, anchor := reporter.VerifPendingFields(p)
	k := 0
	for idx, q := range m.pending {
		qp, qt, ql, qa := reporter.VerifPendingFields(q)
		if !m.usedP[idx] && qp == path && qt == text && ql == line && qa == anchor {
			k = idx + 1
			m.usedP[idx] = true
			break
		}
	}
	m.nCreate++
	if m.fault.Op == "create" && m.fault.K == m.nCreate {
		m.hit = true
		m.calls = append(m.calls, c17Call{"create", k, 2})
		return errC17Injected
	}
	m.calls = append(m.calls, c17Call{"create", k, 0})
	if m.plat == "github" {
		_, line = reporter.VerifGithubFixCommentLine(m.gh, dst, p) // what GithubReporter.Create sends
	}
	if m.strip {
		text = strings.TrimRight(text, "\n")
	}
	m.nextID++
	c := c17Comment{ID: m.nextID, Path: path, Line: line, Text: text, Mine: true}
	m.store = append(m.store, c)
	m.creates = append(m.creates, c)
	return nil
}
func (m *c17Mem) Delete(_ context.Context, _ any, e reporter.ExistingComment) error {
	meta, _, _, _ := reporter.VerifExistingFields(e)
	id, _ := meta.(int)
	pos := m.posBefore(id)
	m.nDelete++
	if m.fault.Op == "delete" && m.fault.K == m.nDelete {
		m.hit = true
		m.calls = append(m.calls, c17Call{"delete", pos, 2})
		return errC17Injected
	}
	m.calls = append(m.calls, c17Call{"delete", pos, 0})
	for k, c := range m.store {
		if c.ID == id {
			m.store = append(m.store[:k:k], m.store[k+1:]...)
			m.deleted = append(m.deleted, pos)
			break
		}
	}
	return nil
}
func (m *c17Mem) CanCreate(n int) bool {
	ok := m.gl.CanCreate(n)
	if m.plat == "github" {
		ok = m.gh.CanCreate(n)
	}
	m.calls = append(m.calls, c17Call{"cancreate", n, c17B(ok)})
	return ok
}
func (m *c17Mem) CanDelete(e reporter.ExistingComment) bool {
	ok := m.gl.CanDelete(e)
	if m.plat == "github" {
		ok = m.gh.CanDelete(e)
	}
	meta, _, _, _ := reporter.VerifExistingFields(e)
	id, _ := meta.(int)
	m.calls = append(m.calls, c17Call{"candelete", m.posBefore(id), c17B(ok)})
	return ok
}
func (m *c17Mem) IsEqual(dst any, e reporter.ExistingComment, p reporter.PendingComment) bool {
	m.isEqual++
	if m.plat == "github" {
		return m.gh.IsEqual(dst, e, p)
	}
	return m.gl.IsEqual(dst, e, p)
}

func c17B(b bool) int {
	if b {
		return 1
	}
	return 0
}

// ---- projections
type c17Interner struct{ ids map[string]int }

func (in *c17Interner) id(text string) int {
	t := strings.Trim(text, "\n")
	if v, ok := in.ids[t]; ok {
		return v
	}
	in.ids[t] = len(in.ids) + 1
	return in.ids[t]
}

type c17RecComment struct {
	Path    string   `json:"path"`
	Line    int      `json:"line"`
	Tid     int      `json:"tid"`
	Carries []string `json:"carries"`
	Nl      int      `json:"nl"`
	Mine    bool     `json:"mine"`
}

func c17AbsPath(p string) string {
	if p == "" {
		return ""
	}
	switch filepath.Base(p) {
	case "rules1.yml":
		return "F1"
	case "rules2.yml":
		return "F2"
	}
	return filepath.Base(p)
}

func (in *c17Interner) comment(c c17Comment) c17RecComment {
	return c17RecComment{Path: c17AbsPath(c.Path), Line: c.Line, Tid: in.id(c.Text), Carries: c17Carries(c.Text), Nl: c17Nl(c.Text), Mine: c.Mine}
}
func (in *c17Interner) comments(cs []c17Comment) []c17RecComment {
	out := make([]c17RecComment, 0, len(cs))
	for _, c := range cs {
		out = append(out, in.comment(c))
	}
	return out
}

type c17PendRec struct {
	Path    string   `json:"path"`
	Line    int      `json:"line"`
	Tid     int      `json:"tid"`
	Carries []string `json:"carries"`
	Anchor  string   `json:"anchor"`
}

func c17PendRecs(in *c17Interner, pending []reporter.PendingComment) []c17PendRec {
	pend := []c17PendRec{}
	for _, p := range pending {
		path, text, line, anchor := reporter.VerifPendingFields(p)
		a := "after"
		if anchor == checks.AnchorBefore {
			a = "before"
		}
		pend = append(pend, c17PendRec{c17AbsPath(path), line, in.id(text), c17Carries(text), a})
	}
	return pend
}

// real text of the comment the abstract seed text stands for
var c17TextCache sync.Map

func c17SeedText(dir string, t c17Text) (string, error) {
	if t.G == "stale" {
		return "a comment written by an older pint version about a problem that is gone\n", nil
	}
	key := fmt.Sprintf("%v/%d", t.M, t.S)
	if strings.Contains(key, "P7") {
		key = dir + key // the details of rule/dependency name the path of the dependent rule
	}
	if v, ok := c17TextCache.Load(key); ok {
		return v.(string), nil
	}
	on := map[string]bool{}
	for _, p := range t.M {
		on[p] = true
	}
	lr, err := c17DoLint(dir, on, c17Var{Shift: t.S, Mod: "all"})
	if err != nil {
		return "", err
	}
	want := map[string]bool{}
	for _, p := range t.M {
		want[c17ProbSum[p]] = true
	}
	// the pending comment of that file spelling out these problems; a changed makeComments may spell out
	// fewer - then the closest one stands in (JUDGE reports the difference as drift, not as a violation)
	best, bestN := "", -1
	showDup := want["S5"] || want["S6"]
	for _, p := range reporter.VerifMakeComments(lr.summary, showDup) {
		path, text, _, _ := reporter.VerifPendingFields(p)
		if c17AbsPath(path) != c17ProbFile[t.M[0]] {
			continue
		}
		n := 0
		for _, g := range c17Carries(text) {
			if want[g] {
				n++
			} else {
				n -= 10
			}
		}
		if n > bestN {
			best, bestN = text, n
		}
	}
	if bestN > 0 {
		c17TextCache.Store(key, best)
		return best, nil
	}
	return "", fmt.Errorf("no pending comment for seed text %+v", t)
}

func c17NewMem(cs c17Case) (*c17Mem, error) {
	m := &c17Mem{plat: cs.Plat, strip: cs.Strip}
	var err error
	m.gl, err = reporter.NewGitLabReporter("v0", "branch", "", time.Second, "token", 1, cs.Max)
	if err != nil {
		return nil, err
	}
	m.gh, err = reporter.NewGithubReporter(context.Background(), "v0", "", "", time.Second, "token", "owner", "repo", 1, cs.Max, "head", false)
	return m, err
}

func c17RunCase(id int, cs c17Case, emit func(any)) error {
	dir, err := os.MkdirTemp(shmDir(), "c17-")
	if err != nil {
		return err
	}
	defer os.RemoveAll(dir)
	m, err := c17NewMem(cs)
	if err != nil {
		return err
	}
	in := &c17Interner{ids: map[string]int{}}
	type seedRec struct {
		c17RecComment
		Atext c17Text `json:"atext"`
	}
	seeds := []seedRec{}
	for _, sd := range cs.Seeds {
		text, err := c17SeedText(dir, sd.Text)
		if err != nil {
			return err
		}
		text = strings.TrimRight(text, "\n") + strings.Repeat("\n", sd.Nl)
		m.nextID++
		c := c17Comment{ID: m.nextID, Path: filepath.Join(dir, c17FileName[sd.Path]), Line: sd.Line, Text: text, Mine: sd.Mine}
		m.store = append(m.store, c)
		at := sd.Text
		if at.M == nil {
			at.M = []string{}
		}
		seeds = append(seeds, seedRec{in.comment(c), at})
	}
	emit(map[string]any{"ev": "Case", "id": id, "plat": cs.Plat, "max": cs.Max, "strip": cs.Strip, "pad": 0, "padf": 0, "showdup": cs.Showdup, "store": seeds})
	for rn, run := range cs.Runs {
		on := map[string]bool{}
		for _, p := range run.Reports {
			on[p] = true
		}
		lr, err := c17DoLint(dir, on, run.Var)
		if err != nil {
			return err
		}
		if len(lr.extra) > 0 || len(lr.probs) != len(run.Reports) {
			return fmt.Errorf("case %d run %d: pipeline reported %v (+%v) for %v", id, rn+1, lr.probs, lr.extra, run.Reports)
		}
		files := []*github.CommitFile{}
		for _, f := range []string{"F1", "F2"} {
			files = append(files, &github.CommitFile{
				Filename: github.Ptr(filepath.Join(dir, c17FileName[f])),
				Patch:    github.Ptr(lr.patch(f)),
			})
		}
		m.dst = "gitlab-mr"
		if cs.Plat == "github" {
			m.dst = reporter.VerifGithubDestination(files)
		}
		m.pending = reporter.VerifMakeComments(lr.summary, cs.Showdup)
		m.usedP = map[int]bool{}
		m.before, m.listed, m.calls, m.creates, m.deleted, m.isEqual = append([]c17Comment{}, m.store...), []int{}, []c17Call{}, nil, []int{}, 0
		m.fault, m.nCreate, m.nDelete, m.hit, m.nerrs = run.Fault, 0, 0, false, 0
		if m.fault.Op == "" {
			m.fault.Op = "none"
		}
		errStr := ""
		if err := reporter.Submit(context.Background(), lr.summary, m, cs.Showdup); err != nil {
			errStr = err.Error()
		}
		pend := c17PendRecs(in, m.pending)
		reps := append([]string{}, run.Reports...)
		emit(map[string]any{"ev": "Run", "id": id, "run": rn + 1, "reports": reps, "shift": run.Var.Shift, "mod": run.Var.Mod,
			"pending": pend, "before": in.comments(m.before), "listed": m.listed, "calls": m.calls, "callsobs": true,
			"creates": in.comments(m.creates), "deleted": m.deleted, "after": in.comments(m.store),
			"isequal": m.isEqual, "notice": 0, "err": errStr, "fault": m.fault, "hit": m.hit, "nerrs": m.nerrs})
	}
	return nil
}

func init() {
	register("exec-c17", func(in []json.RawMessage, out *Out, args []string) error {
		results := make([][]any, len(in))
		var mu sync.Mutex
		var firstErr error
		parallel(len(in), runtime.NumCPU(), func(idx int) {
			var cs c17Case
			if err := json.Unmarshal(in[idx], &cs); err != nil {
				mu.Lock()
				firstErr = err
				mu.Unlock()
				return
			}
			var recs []any
			if err := c17RunCase(idx+1, cs, func(v any) { recs = append(recs, v) }); err != nil {
				mu.Lock()
				if firstErr == nil {
					firstErr = err
				}
				mu.Unlock()
				return
			}
			results[idx] = recs
		})
		if firstErr != nil {
			return firstErr
		}
		for _, rs := range results {
			for _, r := range rs {
				out.Write(r)
			}
		}
		return nil
	})
}
