// Command vh is the EXEC role of the verification machinery (DESIGN.md §2): it reads abstract
// cases (ndjson) produced by TLC, runs them on the real pint code and records what the code did
// (ndjson) for TLC to judge. It contains no oracle logic.
package main

import (
	"bufio"
	"encoding/json"
	"flag"
	"fmt"
	"io"
	"log/slog"
	"os"
	"sort"
	"sync"
)

type subcmd func(in []json.RawMessage, out *Out, args []string) error

var cmds = map[string]subcmd{}

func register(name string, f subcmd) { cmds[name] = f }

// Out is a concurrency-safe ndjson writer.
type Out struct {
	mu sync.Mutex
	w  *bufio.Writer
	n  int
}

func (o *Out) Write(v any) {
	b, err := json.Marshal(v)
	if err != nil {
		panic(err)
	}
	o.mu.Lock()
	o.w.Write(b)
	o.w.WriteByte('\n')
	o.n++
	o.mu.Unlock()
}

func readCases(path string) ([]json.RawMessage, error) {
	if path == "" || path == "-" {
		return nil, nil
	}
	f, err := os.Open(path)
	if err != nil {
		return nil, err
	}
	defer f.Close()
	var out []json.RawMessage
	r := bufio.NewReaderSize(f, 1<<20)
	for {
		line, err := r.ReadBytes('\n')
		if len(line) > 1 {
			cp := make([]byte, len(line))
			copy(cp, line)
			out = append(out, json.RawMessage(cp))
		}
		if err == io.EOF {
			break
		}
		if err != nil {
			return nil, err
		}
	}
	return out, nil
}

// parallel runs f over 0..n-1 on `workers` goroutines.
func parallel(n, workers int, f func(i int)) {
	if workers < 1 {
		workers = 1
	}
	var wg sync.WaitGroup
	ch := make(chan int, workers)
	for w := 0; w < workers; w++ {
		wg.Add(1)
		go func() {
			defer wg.Done()
			for i := range ch {
				f(i)
			}
		}()
	}
	for i := 0; i < n; i++ {
		ch <- i
	}
	close(ch)
	wg.Wait()
}

// shmDir returns a memory-backed scratch directory when available ("" = default temp dir).
func shmDir() string {
	if st, err := os.Stat("/dev/shm"); err == nil && st.IsDir() {
		return "/dev/shm"
	}
	return ""
}

func main() {
	if len(os.Args) < 2 {
		names := []string{}
		for k := range cmds {
			names = append(names, k)
		}
		sort.Strings(names)
		fmt.Fprintln(os.Stderr, "usage: vh <sub> -in cases.ndjson -out trace.ndjson [args]; subs:", names)
		os.Exit(2)
	}
	sub := os.Args[1]
	f, ok := cmds[sub]
	if !ok {
		fmt.Fprintln(os.Stderr, "unknown sub-command", sub)
		os.Exit(2)
	}
	fs := flag.NewFlagSet(sub, flag.ExitOnError)
	in := fs.String("in", "", "cases ndjson")
	outp := fs.String("out", "", "trace ndjson")
	fs.Parse(os.Args[2:])
	if os.Getenv("VERIF_DEBUG") == "" {
		slog.SetDefault(slog.New(slog.NewTextHandler(io.Discard, nil)))
	}
	cases, err := readCases(*in)
	if err != nil {
		fmt.Fprintln(os.Stderr, "reading cases:", err)
		os.Exit(2)
	}
	w := os.Stdout
	if *outp != "" {
		w, err = os.Create(*outp)
		if err != nil {
			fmt.Fprintln(os.Stderr, err)
			os.Exit(2)
		}
	}
	out := &Out{w: bufio.NewWriterSize(w, 1<<20)}
	if err := f(cases, out, fs.Args()); err != nil {
		out.w.Flush()
		fmt.Fprintln(os.Stderr, "error:", err)
		os.Exit(2)
	}
	out.w.Flush()
	fmt.Fprintf(os.Stderr, "%s: %d cases in, %d records out\n", sub, len(cases), out.n)
}
