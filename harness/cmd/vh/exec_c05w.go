package main

// exec-c05-watch: EXEC for the watch-mode growth of the Exit family (spec/Watch.tla).
// Every scenario from GEN (flags + the content each iteration will find) is run with the real
// `pint watch glob` daemon: first tick after 1s, then every --interval; the harness waits for
// pint_check_iterations_total to reach k, scrapes /metrics and /health, rewrites (or removes) the
// rule file for iteration k+1, and finally sends SIGTERM. Recorded per iteration: iterations counter,
// pint_problems, the pint_problem series projected to (content, rule, severity), health; at the end the
// exit status. A scenario whose file rewrite came too late in the interval is run again.

import (
	"bufio"
	"bytes"
	"encoding/json"
	"errors"
	"fmt"
	"io"
	"net"
	"net/http"
	"os"
	"os/exec"
	"path/filepath"
	"regexp"
	"runtime"
	"strconv"
	"strings"
	"sync/atomic"
	"syscall"
	"time"
)

type c05wScenario struct {
	MinSev      string `json:"minSev"`
	MaxProblems int    `json:"maxProblems"`
	ShowDup     bool   `json:"showDup"`
	Steps       []int  `json:"steps"`
}

type c05wCase struct {
	Scenario c05wScenario `json:"scenario"`
	Menu     [][]c05Req   `json:"menu"`
}

type c05wMetric struct {
	Content int    `json:"content"`
	Rule    int    `json:"rule"`
	Sev     string `json:"sev"`
}

// base interval between iterations; doubled on every retry of a scenario whose file rewrite came too late
const c05wInterval = 1500 * time.Millisecond

func c05wRules(menu [][]c05Req, j int) string {
	var b strings.Builder
	if len(menu[j-1]) == 0 {
		b.WriteString("# no rules\n")
	}
	for k, r := range menu[j-1] {
		expr := "vector(1)"
		if r.Kind == "syntax" {
			expr = c05Broken[r.C]
		}
		fmt.Fprintf(&b, "# pint rule/owner bob\n- record: m%dr%d\n  expr: %s\n", j, k+1, expr)
	}
	return b.String()
}

// the configuration is read once by the daemon: it holds the blocks of every content of the menu
func c05wConfig(menu [][]c05Req) string {
	var b strings.Builder
	b.WriteString("parser {\n  relaxed = [\".*\"]\n}\n")
	blk := func(name, body string) {
		fmt.Fprintf(&b, "rule {\n  match {\n    name = \"%s\"\n  }\n  %s\n}\n", name, strings.ReplaceAll(body, "\n", "\n  "))
	}
	for j, content := range menu {
		for k, r := range content {
			name := fmt.Sprintf("m%dr%d", j+1, k+1)
			switch r.Kind {
			case "report":
				blk(name, fmt.Sprintf("report {\n  comment  = \"c%d\"\n  severity = \"%s\"\n}", r.C, r.Sev))
			case "label":
				blk(name, fmt.Sprintf("label \"t%d\" {\n  required = true\n  severity = \"%s\"\n}", r.C, r.Sev))
			case "twin":
				blk(name, fmt.Sprintf("label \"t%d\" {\n  required = true\n  severity = \"warning\"\n}", r.C))
				blk(name, fmt.Sprintf("label \"t%d\" {\n  required = true\n  value    = \"x.*\"\n  severity = \"%s\"\n}", r.C, r.Sev))
			}
		}
	}
	return b.String()
}

var (
	c05wProblemRe = regexp.MustCompile(`^pint_problem\{(.*)\} 1$`)
	c05wNameRe    = regexp.MustCompile(`name="m([0-9]+)r([0-9]+)"`)
	c05wSevRe     = regexp.MustCompile(`severity="([a-z]+)"`)
)

type c05wScrape struct {
	ok         bool
	iterations int
	present    bool
	problems   int
	exported   []c05wMetric
}

func c05wGet(url string) (string, error) {
	c := http.Client{Timeout: 5 * time.Second}
	resp, err := c.Get(url)
	if err != nil {
		return "", err
	}
	defer resp.Body.Close()
	b, err := io.ReadAll(resp.Body)
	return string(b), err
}

func c05wScrapeMetrics(base string) c05wScrape {
	var s c05wScrape
	body, err := c05wGet(base + "/metrics")
	if err != nil {
		return s
	}
	s.ok = true
	s.exported = []c05wMetric{}
	sc := bufio.NewScanner(strings.NewReader(body))
	sc.Buffer(make([]byte, 1<<20), 1<<20)
	for sc.Scan() {
		ln := sc.Text()
		switch {
		case strings.HasPrefix(ln, "pint_check_iterations_total "):
			f, _ := strconv.ParseFloat(strings.Fields(ln)[1], 64)
			s.iterations = int(f)
		case strings.HasPrefix(ln, "pint_problems "):
			f, _ := strconv.ParseFloat(strings.Fields(ln)[1], 64)
			s.present, s.problems = true, int(f)
		default:
			if m := c05wProblemRe.FindStringSubmatch(ln); m != nil {
				n, sv := c05wNameRe.FindStringSubmatch(m[1]), c05wSevRe.FindStringSubmatch(m[1])
				if n != nil && sv != nil {
					j, _ := strconv.Atoi(n[1])
					k, _ := strconv.Atoi(n[2])
					s.exported = append(s.exported, c05wMetric{Content: j, Rule: k, Sev: sv[1]})
				}
			}
		}
	}
	return s
}

var c05wNextPort atomic.Int32

// c05wFreePort hands out ports that are unique within this process (two daemons started by different workers
// must never share one: the loser of the bind keeps running and the harness would scrape the winner) and free now.
func c05wFreePort() (int, error) {
	for try := 0; try < 2000; try++ {
		p := 20000 + int(c05wNextPort.Add(1))%30000
		l, err := net.Listen("tcp", fmt.Sprintf("127.0.0.1:%d", p))
		if err != nil {
			continue
		}
		l.Close()
		return p, nil
	}
	return 0, errors.New("no free port")
}

var errC05wLate = errors.New("file rewrite came too late in the interval")
var errC05wDied = errors.New("pint watch exited on its own")

// c05wRun runs one scenario once; recs are only valid when err == nil.
func c05wRun(pint, root string, id int, cs c05wCase, interval time.Duration) (recs []map[string]any, err error) {
	dir, err := os.MkdirTemp(root, "w")
	if err != nil {
		return nil, err
	}
	defer os.RemoveAll(dir)
	rules := filepath.Join(dir, "rules.yml")
	put := func(j int) error {
		if j == 0 {
			os.Remove(rules)
			return nil
		}
		tmp := rules + ".tmp"
		if err := os.WriteFile(tmp, []byte(c05wRules(cs.Menu, j)), 0o644); err != nil {
			return err
		}
		return os.Rename(tmp, rules)
	}
	if err := os.WriteFile(filepath.Join(dir, ".pint.hcl"), []byte(c05wConfig(cs.Menu)), 0o644); err != nil {
		return nil, err
	}
	if err := put(cs.Scenario.Steps[0]); err != nil {
		return nil, err
	}
	port, err := c05wFreePort()
	if err != nil {
		return nil, err
	}
	args := []string{"--offline", "--no-color"}
	if cs.Scenario.ShowDup {
		args = append(args, "--show-duplicates")
	}
	args = append(args, "watch", "--interval="+interval.String(), fmt.Sprintf("--listen=127.0.0.1:%d", port),
		"--max-problems="+strconv.Itoa(cs.Scenario.MaxProblems))
	if cs.Scenario.MinSev != "UNSET" {
		args = append(args, "--min-severity="+cs.Scenario.MinSev)
	}
	args = append(args, "glob", "rules.yml")
	cmd := exec.Command(pint, args...)
	cmd.Dir = dir
	cmd.Env = c05Env(dir)
	var stderr bytes.Buffer
	cmd.Stderr = &stderr
	if err := cmd.Start(); err != nil {
		return nil, err
	}
	exited := make(chan error, 1)
	go func() { exited <- cmd.Wait() }()
	kill := func() {
		_ = cmd.Process.Kill()
		<-exited
	}
	base := fmt.Sprintf("http://127.0.0.1:%d", port)
	recs = append(recs, map[string]any{"ev": "WStart", "id": id, "scenario": cs.Scenario})
	for k := 1; k <= len(cs.Scenario.Steps); k++ {
		deadline := time.Now().Add(60*time.Second + 2*interval)
		var s c05wScrape
		for {
			select {
			case e := <-exited:
				return nil, fmt.Errorf("%w (%v): %s", errC05wDied, e, tailStr(stderr.String(), 600))
			default:
			}
			s = c05wScrapeMetrics(base)
			if s.ok && s.iterations >= k {
				break
			}
			if time.Now().After(deadline) {
				kill()
				return nil, fmt.Errorf("iteration %d never finished: %s", k, tailStr(stderr.String(), 600))
			}
			time.Sleep(15 * time.Millisecond)
		}
		seen := time.Now()
		// somebody else (another process) took the port between the probe and pint's bind: not our daemon
		if strings.Contains(stderr.String(), "HTTP server returned an error") {
			kill()
			return nil, errC05wLate
		}
		// a scrape gathers the collectors concurrently: the one that showed the counter at k may have read the
		// problems before the scan stored them; the next scrape is consistent
		s = c05wScrapeMetrics(base)
		if !s.ok || s.iterations != k {
			kill()
			return nil, errC05wLate
		}
		if k < len(cs.Scenario.Steps) {
			if err := put(cs.Scenario.Steps[k]); err != nil {
				kill()
				return nil, err
			}
		}
		health, herr := c05wGet(base + "/health")
		if time.Since(seen) > interval/2 {
			kill()
			return nil, errC05wLate
		}
		recs = append(recs, map[string]any{"ev": "WStep", "id": id, "k": k, "iterations": s.iterations, "present": s.present,
			"problems": s.problems, "exported": s.exported, "health": herr == nil && strings.TrimSpace(health) == "OK"})
	}
	_ = cmd.Process.Signal(syscall.SIGTERM)
	var werr error
	select {
	case werr = <-exited:
	case <-time.After(60 * time.Second):
		kill()
		return nil, errors.New("pint watch did not stop on SIGTERM")
	}
	code := 0
	var ee *exec.ExitError
	if errors.As(werr, &ee) {
		code = ee.ExitCode()
	}
	recs = append(recs, map[string]any{"ev": "WStop", "id": id, "exit": code})
	return recs, nil
}

func tailStr(s string, n int) string {
	if len(s) > n {
		return s[len(s)-n:]
	}
	return s
}

func init() {
	register("exec-c05-watch", func(in []json.RawMessage, out *Out, args []string) error {
		if len(args) < 1 {
			return errors.New("usage: exec-c05-watch -in cases -out trace <pint binary>")
		}
		pint := args[0]
		cases := make([]c05wCase, len(in))
		for i, raw := range in {
			if err := json.Unmarshal(raw, &cases[i]); err != nil {
				return fmt.Errorf("case %d: %v", i+1, err)
			}
		}
		root, err := os.MkdirTemp(shmDir(), "vh-c05w-")
		if err != nil {
			return err
		}
		defer os.RemoveAll(root)
		errs := make([]error, len(cases))
		all := make([][]map[string]any, len(cases))
		// the daemons mostly sleep: many more of them than CPUs can run at once
		c05wNextPort.Store(int32(os.Getpid()*37) % 25000)
		// the daemons mostly sleep; timing problems (an overloaded machine) never fail the run: the scenario is
		// retried with a doubled interval and finally left out (the driver reports how many were validated)
		var skipped atomic.Int32
		parallel(len(cases), 2*runtime.NumCPU(), func(i int) {
			interval := c05wInterval
			for attempt := 0; attempt < 4; attempt++ {
				recs, err := c05wRun(pint, root, i+1, cases[i], interval)
				if err == nil {
					all[i] = recs
					errs[i] = nil
					return
				}
				errs[i] = err
				interval *= 2
			}
			if errors.Is(errs[i], errC05wDied) {
				// not a timing problem: the daemon died in every attempt - recorded, W3 is TLC's call
				all[i] = []map[string]any{{"ev": "WStart", "id": i + 1, "scenario": cases[i].Scenario},
					{"ev": "WDied", "id": i + 1, "msg": tailStr(errs[i].Error(), 400)}}
				errs[i] = nil
				return
			}
			skipped.Add(1)
		})
		nerr := 0
		for _, e := range errs {
			if e != nil {
				nerr++
				if nerr <= 3 {
					fmt.Fprintln(os.Stderr, "skipped scenario:", e)
				}
			}
		}
		for _, recs := range all {
			for _, r := range recs {
				out.Write(r)
			}
		}
		return nil
	})
}
