package main

// exec-c08: EXEC for DispatchC08 (C08 - every check is switched on and off by the name it reports under).
// For every scenario (configuration enabling check kinds, Prometheus servers nobody listens on) it runs the
// real `pint` binary once without any switch (Base) and once per case with the mechanism of the case applied
// (Run), and records for each run
//   * the problems of the --json report as (reporter, hash of everything else), and
//   * the list of checks pint dispatched per class of rule, taken from its own debug log
//     ("Configured checks for rule").
// No judgement here: TLC (DispatchC08Trace) evaluates the property on these records.

import (
	"bufio"
	"bytes"
	"encoding/json"
	"errors"
	"fmt"
	"os"
	"os/exec"
	"path/filepath"
	"regexp"
	"runtime"
	"sort"
	"strings"
	"sync"
	"time"
)

type c08Case struct {
	Cmd    string          `json:"cmd"`
	Hist   string          `json:"hist"` // ci: added | modified | moved
	Mech   string          `json:"mech"`
	Args   json.RawMessage `json:"args"`
	Bcfg   dCfg            `json:"bcfg"`
	Vcfg   dCfg            `json:"vcfg"`
	Vflags dFlags          `json:"vflags"`
	BcfgR  json.RawMessage `json:"-"`
	VcfgR  json.RawMessage `json:"-"`
	VflR   json.RawMessage `json:"-"`
}

type c08Rep struct {
	R string `json:"r"`
	K string `json:"k"`
}

type c08Checks struct {
	Kind  string   `json:"kind"`  // rule | error
	State string   `json:"state"` // change state pint logged for the entry
	List  []string `json:"list"`
}

// The rule file: at least one problem of every check reachable with `pint lint`
// (rule/dependency needs a removed rule and therefore `pint ci`, see c08DepBase).
const c08Rules = `groups:
- name: g
  rules:
  - record: foo:sum
    expr: sum(rate(http_requests_total{job=~"api"}[2h])) without(job)
    labels:
      kind: bad1
  - alert: Down
    expr: up == 0
    for: 1m
    keep_firing_for: 10m
    labels:
      kind: bad2
    annotations:
      link: http://example.com/runbook
      desc: "{{ $labels.nope }}"
  - alert: Always
    expr: absent(foo{job="x"})
    for: 0m
    annotations:
      summary: "{{ $externalLabels.cluster }}"
  - alert: Cmp
    expr: sum(foo) by(job)
  - record: broken
    expr: sum(
  - alert: Vec
    expr: (foo / on(instance) group_left sum(bar) without(job)) > 0
  - alert: Imp
    expr: foo{job="a"} * on(instance) group_left(cluster) bar{job="b"} > vector(0)
  - record: bad
  - alert: Frag
    expr: topk(10, mymetric > 0)
    annotations:
      summary: "{{ $labels.instance }} on {{ $value | humanize"
  - alert: Tmpl
    expr: sum(foo) by(job) > 0
    annotations:
      summary: "{{ $labels.instance }}"
  - record: dup:one
    expr: sum(dupmetric) by(job)
  - record: dup:one
    expr: sum(dupmetric) by(job)
`

const c08DepBase = `groups:
- name: dep
  rules:
  - alert: UsesDep
    expr: dep:removed > 0
  - record: dep:removed
    expr: sum(dep_metric)
`

const c08DepHead = `groups:
- name: dep
  rules:
  - alert: UsesDep
    expr: dep:removed > 0
`

func runGit(dir string, args ...string) error {
	cmd := exec.Command("git", args...)
	cmd.Dir = dir
	cmd.Env = append(os.Environ(), "GIT_AUTHOR_NAME=v", "GIT_AUTHOR_EMAIL=v@example.com", "GIT_COMMITTER_NAME=v",
		"GIT_COMMITTER_EMAIL=v@example.com", "GIT_AUTHOR_DATE=2024-01-01T00:00:00Z", "GIT_COMMITTER_DATE=2024-01-01T00:00:00Z",
		"GIT_CONFIG_GLOBAL=/dev/null", "GIT_CONFIG_SYSTEM=/dev/null")
	if out, err := cmd.CombinedOutput(); err != nil {
		return fmt.Errorf("git %v: %v: %s", args, err, out)
	}
	return nil
}

// c08Workdir lays out the rule files (and for `ci` the two-commit repository) of a scenario.
func c08Workdir(dir, command, hist string) error {
	if err := os.MkdirAll(filepath.Join(dir, "rules"), 0o755); err != nil {
		return err
	}
	if command != "ci" {
		return os.WriteFile(filepath.Join(dir, "rules", "r.yml"), []byte(c08Rules), 0o644)
	}
	if err := runGit(dir, "init", "-q", "-b", "main", "."); err != nil {
		return err
	}
	if err := os.WriteFile(filepath.Join(dir, "rules", "dep.yml"), []byte(c08DepBase), 0o644); err != nil {
		return err
	}
	// how the rule file comes to be on the branch: added there (default), present on the base branch with other
	// expressions and modified on the branch, or present under another name and renamed on the branch
	switch hist {
	case "modified":
		re := regexp.MustCompile(`(?m)^(    expr: ).*$`)
		if err := os.WriteFile(filepath.Join(dir, "rules", "r.yml"), re.ReplaceAll([]byte(c08Rules), []byte("${1}vector(1)")), 0o644); err != nil {
			return err
		}
	case "moved":
		if err := os.WriteFile(filepath.Join(dir, "rules", "old.yml"), []byte(c08Rules), 0o644); err != nil {
			return err
		}
	}
	if err := runGit(dir, "add", "."); err != nil {
		return err
	}
	if err := runGit(dir, "commit", "-q", "-m", "base"); err != nil {
		return err
	}
	if err := runGit(dir, "checkout", "-q", "-b", "pr"); err != nil {
		return err
	}
	if err := os.WriteFile(filepath.Join(dir, "rules", "dep.yml"), []byte(c08DepHead), 0o644); err != nil {
		return err
	}
	if hist == "moved" {
		if err := runGit(dir, "mv", "rules/old.yml", "rules/r.yml"); err != nil {
			return err
		}
	} else if err := os.WriteFile(filepath.Join(dir, "rules", "r.yml"), []byte(c08Rules), 0o644); err != nil {
		return err
	}
	if err := runGit(dir, "add", "."); err != nil {
		return err
	}
	return runGit(dir, "commit", "-q", "-m", "change rules")
}

type pintJSON struct {
	Path     string `json:"path"`
	Reporter string `json:"reporter"`
	Problem  string `json:"problem"`
	Details  string `json:"details"`
	Severity string `json:"severity"`
	Lines    []int  `json:"lines"`
}

// runPint runs the binary in dir with the configuration text and global flags; returns the report and the
// dispatched check lists per rule class.
func runPint(pint, dir, scratch, tag, command string, cfgText string, flags []string) (reps []c08Rep, chk []c08Checks, rc int, err error) {
	cfgPath := filepath.Join(scratch, tag+".hcl")
	jsonPath := filepath.Join(scratch, tag+".json")
	if err = os.WriteFile(cfgPath, []byte(cfgText), 0o644); err != nil {
		return nil, nil, 0, err
	}
	defer os.Remove(cfgPath)
	defer os.Remove(jsonPath)
	args := []string{"-n", "-l", "debug", "--config", cfgPath, "-w", "4"}
	args = append(args, flags...)
	if command == "ci" {
		args = append(args, "ci", "--base-branch", "main", "--json", jsonPath)
	} else {
		args = append(args, "lint", "--min-severity", "info", "--json", jsonPath, "rules")
	}
	cmd := exec.Command(pint, args...)
	cmd.Dir = dir
	cmd.Env = append(os.Environ(), "NO_COLOR=1")
	var stderr bytes.Buffer
	cmd.Stderr = &stderr
	cmd.Stdout = &stderr
	done := make(chan error, 1)
	if err = cmd.Start(); err != nil {
		return nil, nil, 0, err
	}
	go func() { done <- cmd.Wait() }()
	select {
	case werr := <-done:
		var ee *exec.ExitError
		if errors.As(werr, &ee) {
			rc = ee.ExitCode()
		} else if werr != nil {
			return nil, nil, 0, werr
		}
	case <-time.After(120 * time.Second):
		cmd.Process.Kill()
		return nil, nil, 0, fmt.Errorf("pint timed out: %v", args)
	}
	raw, rerr := os.ReadFile(jsonPath)
	if rerr != nil {
		return nil, nil, rc, fmt.Errorf("pint wrote no report (rc=%d) args=%v\nconfig:\n%s\nstderr tail:\n%s", rc, args, cfgText, tail(stderr.String(), 1500))
	}
	var out []pintJSON
	if err = json.Unmarshal(raw, &out); err != nil {
		return nil, nil, rc, fmt.Errorf("bad json report: %v", err)
	}
	seenR := map[c08Rep]bool{}
	for _, r := range out {
		cr := c08Rep{R: r.Reporter, K: shortHash(r.Path, r.Lines, r.Problem, r.Details, r.Severity)}
		if !seenR[cr] {
			seenR[cr] = true
			reps = append(reps, cr)
		}
	}
	sort.Slice(reps, func(i, j int) bool {
		if reps[i].R != reps[j].R {
			return reps[i].R < reps[j].R
		}
		return reps[i].K < reps[j].K
	})
	// dispatched checks, from pint's own debug log
	seen := map[string]bool{}
	sc := bufio.NewScanner(&stderr)
	sc.Buffer(make([]byte, 1<<20), 1<<24)
	const pfx = `level=DEBUG msg="Configured checks for rule" enabled=`
	kind, state := "", ""
	for sc.Scan() {
		line := sc.Text()
		// the dispatching goroutine logs "Found <kind> rule ... state=S" right before it dispatches the entry
		for _, f := range [][2]string{{`level=DEBUG msg="Found recording rule" `, "rule"}, {`level=DEBUG msg="Found alerting rule" `, "rule"},
			{`level=DEBUG msg="Found invalid rule" `, "error"}} {
			if strings.HasPrefix(line, f[0]) {
				kind = f[1]
				if i := strings.LastIndex(line, " state="); i >= 0 {
					state = line[i+7:]
				}
			}
		}
		if !strings.HasPrefix(line, pfx) {
			continue
		}
		dec := json.NewDecoder(strings.NewReader(line[len(pfx):]))
		var list []string
		if derr := dec.Decode(&list); derr != nil {
			return nil, nil, rc, fmt.Errorf("cannot parse log line %q: %v", line, derr)
		}
		if list == nil {
			list = []string{}
		}
		if kind == "" {
			// path-level errors (file comments, unreadable files) are not announced by a "Found" line
			kind, state = "error", "noop"
		}
		c := c08Checks{Kind: kind, State: state, List: list}
		key := c.Kind + "\x00" + c.State + "\x00" + strings.Join(list, "\x00")
		if !seen[key] {
			seen[key] = true
			chk = append(chk, c)
		}
		kind, state = "", ""
	}
	sort.Slice(chk, func(i, j int) bool {
		if chk[i].Kind != chk[j].Kind {
			return chk[i].Kind < chk[j].Kind
		}
		if chk[i].State != chk[j].State {
			return chk[i].State < chk[j].State
		}
		return strings.Join(chk[i].List, ",") < strings.Join(chk[j].List, ",")
	})
	if reps == nil {
		reps = []c08Rep{}
	}
	if chk == nil {
		chk = []c08Checks{}
	}
	return reps, chk, rc, nil
}

func tail(s string, n int) string {
	if len(s) > n {
		return s[len(s)-n:]
	}
	return s
}

func init() {
	register("exec-c08", func(in []json.RawMessage, out *Out, args []string) error {
		if len(args) < 1 {
			return errors.New("usage: exec-c08 -in cases -out trace <pint-binary>")
		}
		pint := args[0]
		cases := make([]c08Case, len(in))
		type scen struct {
			key   string
			cmd   string
			hist  string
			cfg   dCfg
			cfgR  json.RawMessage
			cases []int
		}
		var scens []*scen
		byKey := map[string]*scen{}
		for i, raw := range in {
			var rm map[string]json.RawMessage
			if err := json.Unmarshal(raw, &rm); err != nil {
				return err
			}
			if err := json.Unmarshal(raw, &cases[i]); err != nil {
				return fmt.Errorf("case %d: %v", i+1, err)
			}
			cases[i].BcfgR, cases[i].VcfgR, cases[i].VflR = rm["bcfg"], rm["vcfg"], rm["vflags"]
			key := cases[i].Cmd + "\x00" + cases[i].Hist + "\x00" + string(rm["bcfg"])
			s := byKey[key]
			if s == nil {
				s = &scen{key: key, cmd: cases[i].Cmd, hist: cases[i].Hist, cfg: cases[i].Bcfg, cfgR: rm["bcfg"]}
				byKey[key] = s
				scens = append(scens, s)
			}
			s.cases = append(s.cases, i)
		}
		root, err := os.MkdirTemp(shmDir(), "vh-c08-")
		if err != nil {
			return err
		}
		defer os.RemoveAll(root)
		workers := runtime.NumCPU()
		if workers > 16 {
			workers = 16
		}
		for si, s := range scens {
			dir := filepath.Join(root, fmt.Sprintf("s%d", si))
			scratch := filepath.Join(root, fmt.Sprintf("s%d-tmp", si))
			os.MkdirAll(scratch, 0o755)
			if err := c08Workdir(dir, s.cmd, s.hist); err != nil {
				return err
			}
			reps, chk, rc, err := runPint(pint, dir, scratch, "base", s.cmd, renderCfg(s.cfg), nil)
			if err != nil {
				return fmt.Errorf("scenario %d base: %v", si+1, err)
			}
			out.Write(map[string]any{"ev": "Base", "scen": si + 1, "cmd": s.cmd, "hist": s.hist, "cfg": s.cfgR, "reports": reps, "checks": chk, "rc": rc})
			results := make([]map[string]any, len(s.cases))
			var mu sync.Mutex
			var firstErr error
			parallel(len(s.cases), workers, func(j int) {
				ci := s.cases[j]
				c := cases[ci]
				reps, chk, rc, err := runPint(pint, dir, scratch, fmt.Sprintf("c%d", ci), s.cmd, renderCfg(c.Vcfg), renderFlags(c.Vflags))
				if err != nil {
					mu.Lock()
					if firstErr == nil {
						firstErr = fmt.Errorf("case %d (%s %s): %v", ci+1, c.Mech, c.Args, err)
					}
					mu.Unlock()
					return
				}
				results[j] = map[string]any{"ev": "Run", "id": ci + 1, "scen": si + 1, "cmd": s.cmd, "mech": c.Mech, "args": c.Args,
					"cfg": c.VcfgR, "flags": c.VflR, "reports": reps, "checks": chk, "rc": rc}
			})
			if firstErr != nil {
				return firstErr
			}
			for _, r := range results {
				out.Write(r)
			}
		}
		return nil
	})
}
