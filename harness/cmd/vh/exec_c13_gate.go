package main

// Exact arrival orders for exec-c13 through hook H3 (promapi.SetVerifTracer, reached via promhook so that the
// binary still builds on a tree without the hook). The tracer is called inside pint's goroutines at the
// linearisation points of the client; at "start" (worker about to send the request) and "got" (the slice
// goroutine of RangeQuery has the result and is about to put it on the results channel) the tracer may block.
//   - every job of a gated RangeQuery is parked at "start" (cache miss) or at "got" (cache hit);
//   - parked misses are let through "start" one at a time, so the single new request the server logs meanwhile
//     identifies the job's slice; the job then parks at "got" as well;
//   - cache hits are identified by their cache key, which an earlier query of the session tied to a slice start;
//   - finally the "got" gates are opened in exactly the order the case prescribes.
// No oracle logic: the gate only decides WHEN recorded things happen.

import (
	"sync"
	"time"

	"github.com/cloudflare/pint/verifharness/promhook"
)

type c13Job struct {
	id                 string
	ck                 string // "<endpoint>#<cache key>" from the deq event
	started            bool   // reached "start": a request is sent (cache miss)
	ended              bool
	atStart            bool
	atGot              bool
	startMs            int64 // start of the slice (absolute ms); 0 = unknown
	known              bool
	startCh            chan struct{}
	gotCh              chan struct{}
	startOpen, gotOpen bool
}

type c13Gate struct {
	auto   bool // nothing is parked any more: stragglers (jobs the model did not expect) pass straight through
	mu     sync.Mutex
	jobs   []*c13Job
	byID   map[string]*c13Job
	notify chan struct{}
}

var (
	c13GateMu    sync.Mutex
	c13GateByKey = map[string]*c13Gate{} // RangeQuery lock key -> gate
	c13GateByJob = map[string]*c13Gate{}
	c13GateOnce  sync.Once
)

func c13GateAvailable() bool { return promhook.Available() }

func c13InstallTracer() {
	c13GateOnce.Do(func() { promhook.SetTracer(c13Tracer) })
}

func (g *c13Gate) ping() {
	select {
	case g.notify <- struct{}{}:
	default:
	}
}

func c13Tracer(e promhook.Event) {
	switch e.Ev {
	case "enq":
		c13GateMu.Lock()
		g := c13GateByKey[e.Key]
		if g != nil {
			c13GateByJob[e.Job] = g
		}
		c13GateMu.Unlock()
		if g != nil {
			j := &c13Job{id: e.Job, startCh: make(chan struct{}), gotCh: make(chan struct{})}
			g.mu.Lock()
			g.jobs = append(g.jobs, j)
			g.byID[e.Job] = j
			g.mu.Unlock()
			g.ping()
		}
	case "deq", "start", "end-ok", "end-err", "got":
		c13GateMu.Lock()
		g := c13GateByJob[e.Job]
		if g != nil && e.Ev == "got" {
			delete(c13GateByJob, e.Job)
		}
		c13GateMu.Unlock()
		if g == nil {
			return
		}
		g.mu.Lock()
		j := g.byID[e.Job]
		var wait chan struct{}
		if j != nil {
			switch e.Ev {
			case "deq":
				j.ck = e.Key
			case "start":
				j.started, j.atStart = true, true
				if !g.auto {
					wait = j.startCh
				}
			case "end-ok", "end-err":
				j.ended = true
			case "got":
				j.atGot = true
				if !g.auto {
					wait = j.gotCh
				}
			}
		}
		g.mu.Unlock()
		g.ping()
		if wait != nil {
			<-wait
		}
	}
}

func c13NewGate(lockKey string) *c13Gate {
	g := &c13Gate{byID: map[string]*c13Job{}, notify: make(chan struct{}, 1)}
	c13GateMu.Lock()
	c13GateByKey[lockKey] = g
	c13GateMu.Unlock()
	return g
}

func (g *c13Gate) close(lockKey string) {
	c13GateMu.Lock()
	delete(c13GateByKey, lockKey)
	c13GateMu.Unlock()
	g.openAll()
}

// openAll releases everything still parked and lets later arrivals pass (fallback and end of the ordered release).
func (g *c13Gate) openAll() {
	g.mu.Lock()
	g.auto = true
	g.mu.Unlock()
	for _, j := range g.snapshot() {
		g.openStart(j)
		g.openGot(j)
	}
}

func (g *c13Gate) openStart(j *c13Job) {
	g.mu.Lock()
	if !j.startOpen {
		j.startOpen = true
		close(j.startCh)
	}
	g.mu.Unlock()
}

func (g *c13Gate) openGot(j *c13Job) {
	g.mu.Lock()
	if !j.gotOpen {
		j.gotOpen = true
		close(j.gotCh)
	}
	g.mu.Unlock()
}

// waitFor waits until cond (evaluated under the gate's lock) holds or the timeout passes.
func (g *c13Gate) waitFor(timeout time.Duration, cond func() bool) bool {
	deadline := time.NewTimer(timeout)
	defer deadline.Stop()
	for {
		g.mu.Lock()
		ok := cond()
		g.mu.Unlock()
		if ok {
			return true
		}
		select {
		case <-g.notify:
		case <-time.After(2 * time.Millisecond):
		case <-deadline.C:
			return false
		}
	}
}

func (g *c13Gate) allParked() bool {
	for _, j := range g.jobs {
		if !(j.atGot || (j.atStart && !j.ended)) {
			return false
		}
	}
	return true
}

// park waits until `expect` jobs exist and all of them sit at a gate. When the client asks for a different
// number of slices than the model expects, a stable parked state is accepted instead.
func (g *c13Gate) park(expect int, done <-chan struct{}) {
	last, since := -1, time.Now()
	g.waitFor(5*time.Second, func() bool {
		select {
		case <-done:
			return true
		default:
		}
		parked := g.allParked()
		if len(g.jobs) == expect && parked {
			return true
		}
		if len(g.jobs) != last || !parked {
			last, since = len(g.jobs), time.Now()
			return false
		}
		// another slicing than the model's: accept what has been parked and stable for a while
		return len(g.jobs) > 0 && time.Since(since) > 200*time.Millisecond
	})
}

func (g *c13Gate) snapshot() []*c13Job {
	g.mu.Lock()
	defer g.mu.Unlock()
	return append([]*c13Job(nil), g.jobs...)
}
