package main

// exec-c18: EXEC for the ConfigTotality family (C18).
// Every abstract case from GEN is (option, value class + concrete text, rule-content class + concrete
// texts). The harness writes the configuration (one option under test inside the smallest valid block),
// asks the real binary whether it accepts it (`pint config`), writes the rule file and runs the real
// binary on it (`pint [--offline] lint`). Recorded: accepted, exit status, panic / signal markers on
// stderr, the first pint frame of the panic. A worker-goroutine panic cannot be recovered in-process,
// hence the binary. No oracle logic: the verdict is TLC's (spec/ConfigTotalityTrace.tla).

import (
	"bytes"
	"net/http"
	"net/http/httptest"
	"context"
	"encoding/json"
	"errors"
	"fmt"
	"os"
	"os/exec"
	"path/filepath"
	"regexp"
	"runtime"
	"sort"
	"strconv"
	"strings"
	"time"
)

type c18Rule struct {
	Kind    string `json:"kind"`
	Shape   string `json:"shape"`
	Where   string `json:"where"`
	Meta    string `json:"meta"`
	Name    string `json:"name"`
	Foo     string `json:"foo"`
	Summary string `json:"summary"`
	Link    string `json:"link"`
}

type c18Case struct {
	Opt  string  `json:"opt"`
	Type string  `json:"type"`
	Mode string  `json:"mode"`
	Cls  string  `json:"cls"`
	Text string  `json:"text"`
	Rule c18Rule `json:"rule"`
	Pair  bool   `json:"pair"`
	Cls2  string `json:"cls2"`
	Text2 string `json:"text2"`
}

type c18Rec struct {
	Ev       string  `json:"ev"`
	ID       int     `json:"id"`
	Opt      string  `json:"opt"`
	Cls      string  `json:"cls"`
	Text     string  `json:"text"`
	Mode     string  `json:"mode"`
	Rule     c18Rule `json:"rule"`
	Accepted bool    `json:"accepted"`
	LoadErr  string  `json:"loadErr"`
	Ran      bool    `json:"ran"`
	Exit     int     `json:"exit"`
	Panic    bool    `json:"panic"`
	Hang     bool    `json:"hang"`
	Frame    string  `json:"frame"`
	Pair     bool    `json:"pair"`
	Cls2     string  `json:"cls2"`
	Text2    string  `json:"text2"`
}

// c18Fake is a minimal Prometheus HTTP API: one series up{job="x"} that is always present.
// It only makes the online checks run past their first request; it holds no oracle.
func c18Fake() *httptest.Server {
	send := func(w http.ResponseWriter, v any) {
		w.Header().Set("Content-Type", "application/json")
		_ = json.NewEncoder(w).Encode(v)
	}
	ok := func(data any) map[string]any { return map[string]any{"status": "success", "data": data} }
	metric := map[string]string{"__name__": "up", "job": "x", "instance": "i"}
	return httptest.NewServer(http.HandlerFunc(func(w http.ResponseWriter, r *http.Request) {
		_ = r.ParseForm()
		p := r.URL.Path
		switch {
		case strings.HasSuffix(p, "/status/config"):
			send(w, ok(map[string]string{"yaml": "global:\n  scrape_interval: 1m\n"}))
		case strings.HasSuffix(p, "/status/flags"):
			send(w, ok(map[string]string{"storage.tsdb.retention.time": "15d"}))
		case strings.HasSuffix(p, "/metadata"):
			send(w, ok(map[string]any{}))
		case strings.HasSuffix(p, "/query_range"):
			start, _ := strconv.ParseFloat(r.Form.Get("start"), 64)
			end, _ := strconv.ParseFloat(r.Form.Get("end"), 64)
			step, _ := strconv.ParseFloat(r.Form.Get("step"), 64)
			if step <= 0 {
				step = 60
			}
			vals := [][]any{}
			for t := start; t <= end && len(vals) < 3000; t += step {
				vals = append(vals, []any{t, "1"})
			}
			send(w, ok(map[string]any{"resultType": "matrix", "result": []any{map[string]any{"metric": metric, "values": vals}}}))
		case strings.HasSuffix(p, "/query") && strings.Contains(r.Form.Get("query"), "gone"):
			// a metric that is not there right now (its range queries still return history)
			send(w, ok(map[string]any{"resultType": "vector", "result": []any{}}))
		case strings.HasSuffix(p, "/query"):
			send(w, ok(map[string]any{"resultType": "vector", "result": []any{
				map[string]any{"metric": metric, "value": []any{float64(time.Now().Unix()), "1"}}}}))
		default:
			http.NotFound(w, r)
		}
	}))
}

// hclQuote renders s as an HCL quoted string literal (template sequences escaped).
func hclQuote(s string) string {
	var b strings.Builder
	b.WriteByte('"')
	for i := 0; i < len(s); i++ {
		c := s[i]
		switch {
		case c == '\\':
			b.WriteString(`\\`)
		case c == '"':
			b.WriteString(`\"`)
		case c == '\n':
			b.WriteString(`\n`)
		case (c == '$' || c == '%') && i+1 < len(s) && s[i+1] == '{':
			b.WriteByte(c)
			b.WriteByte(c)
		default:
			b.WriteByte(c)
		}
	}
	b.WriteByte('"')
	return b.String()
}

func c18Block(name string, lines ...string) string {
	return name + " {\n  " + strings.Join(lines, "\n  ") + "\n}\n"
}

func c18RuleBlock(inner string) string {
	ind := "  " + strings.ReplaceAll(strings.TrimRight(inner, "\n"), "\n", "\n  ")
	return "rule {\n" + ind + "\n}\n"
}

// c18Config renders the configuration for one option under test; v is the value as written by the user.
// c18PairConfig: two options under test in one block.
func c18PairConfig(opt, v1, v2, promURI string) (string, error) {
	q1, q2 := hclQuote(v1), hclQuote(v2)
	report := c18Block("report", `comment = "x"`, `severity = "info"`)
	switch opt {
	case "pair.label.key+token":
		return c18RuleBlock(c18Block("label "+q1, "token = "+q2)), nil
	case "pair.label.key+value":
		return c18RuleBlock(c18Block("label "+q1, "value = "+q2)), nil
	case "pair.annotation.key+value":
		return c18RuleBlock(c18Block("annotation "+q1, "value = "+q2)), nil
	case "pair.ignore.name+name":
		return c18RuleBlock(c18Block("ignore", "name = "+q1) + "name " + q2 + " {}\n"), nil
	case "pair.match.kind+name":
		return c18RuleBlock(c18Block("match", "kind = "+q1) + "name " + q2 + " {}\n"), nil
	case "pair.match.label.key+value":
		return c18RuleBlock(c18Nest("match", c18Block("label "+q1, "value = "+q2)) + report), nil
	case "pair.for.min+max":
		return c18RuleBlock(c18Block("for", "min = "+q1, "max = "+q2)), nil
	case "pair.prometheus.include+exclude":
		return c18Block(`prometheus "p"`, "uri = "+hclQuote(promURI), "include = ["+q1+"]", "exclude = ["+q2+"]"), nil
	}
	return "", fmt.Errorf("unknown pair %s", opt)
}

func c18Config(opt, typ, v, mode, promURI string) (string, error) {
	cfg, err := c18ConfigOpt(opt, typ, v, promURI)
	if err != nil {
		return "", err
	}
	// mode prom: the online checks get a (fake) server to talk to
	if mode == "prom" && !strings.HasPrefix(opt, "prometheus.") {
		cfg = c18Block(`prometheus "p"`, "uri = "+hclQuote(promURI)) + cfg
	}
	return cfg, nil
}

func c18ConfigOpt(opt, typ, v, promURI string) (string, error) {
	q := hclQuote(v)
	puri := "uri = " + hclQuote(promURI)
	raw := v // numbers
	report := c18Block("report", `comment = "x"`, `severity = "info"`)
	parts := strings.Split(opt, ".")
	switch {
	case parts[0] == "rule" && (parts[1] == "match" || parts[1] == "ignore") && len(parts) >= 3:
		b := parts[1]
		var cond string
		switch strings.Join(parts[2:], ".") {
		case "path", "name", "kind", "command", "for":
			cond = parts[2] + " = " + q
		case "keep_firing_for":
			cond = "keep_firing_for = " + q
			if b == "ignore" { // not counted as a condition by Match.validate: an ignore block needs another one
				cond = "kind = \"alerting\"\n" + cond
			}
		case "state":
			cond = "state = [" + q + "]"
		case "label.key":
			cond = c18Block("label "+q, `value = ".*"`)
		case "label.value":
			cond = c18Block(`label "foo"`, "value = "+q)
		case "annotation.key":
			cond = c18Block("annotation "+q, `value = ".*"`)
		case "annotation.value":
			cond = c18Block(`annotation "summary"`, "value = "+q)
		default:
			return "", fmt.Errorf("unknown option %s", opt)
		}
		return c18RuleBlock(c18Block(b, strings.TrimRight(strings.ReplaceAll(cond, "\n", "\n  "), " \n")) + report), nil
	case parts[0] == "rule" && len(parts) == 3 && parts[2] == "severity":
		sev := "severity = " + q
		var blk string
		switch parts[1] {
		case "aggregate":
			blk = c18Block(`aggregate ".*"`, `keep = ["job"]`, sev)
		case "annotation":
			blk = c18Block(`annotation "summary"`, "required = true", sev)
		case "label":
			blk = c18Block(`label "foo"`, "required = true", sev)
		case "cost":
			blk = c18Block("cost", "maxSeries = 10", sev)
		case "alerts":
			blk = c18Block("alerts", `range = "1h"`, `step = "1m"`, `resolve = "5m"`, "minCount = 1", sev)
		case "for", "keep_firing_for":
			blk = c18Block(parts[1], `min = "1m"`, sev)
		case "range_query":
			blk = c18Block("range_query", `max = "1h"`, sev)
		case "report":
			blk = c18Block("report", `comment = "x"`, sev)
		case "reject":
			blk = c18Block(`reject ".*"`, "label_keys = true", sev)
		case "link":
			blk = c18Block(`link ".*"`, sev)
		case "name":
			blk = c18Block(`name ".*"`, sev)
		default:
			return "", fmt.Errorf("unknown option %s", opt)
		}
		return c18RuleBlock(blk), nil
	}
	alerts := func(line string) string {
		l := map[string]string{"range": `range = "1h"`, "step": `step = "1m"`, "resolve": `resolve = "5m"`}
		if line != "" {
			k := strings.SplitN(line, " ", 2)[0]
			l[k] = line
		}
		extra := ""
		if strings.HasPrefix(line, "minCount") {
			extra = line
		}
		lines := []string{l["range"], l["step"], l["resolve"]}
		if extra != "" {
			lines = append(lines, extra)
		}
		return c18Block("alerts", lines...)
	}
	switch opt {
	case "rule.aggregate.name":
		return c18RuleBlock(c18Block("aggregate "+q, `keep = ["job"]`)), nil
	case "rule.annotation.key":
		return c18RuleBlock(c18Block("annotation "+q, "required = true")), nil
	case "rule.annotation.token":
		return c18RuleBlock(c18Block(`annotation "summary"`, "token = "+q)), nil
	case "rule.annotation.value":
		return c18RuleBlock(c18Block(`annotation "summary"`, "value = "+q)), nil
	case "rule.label.key":
		return c18RuleBlock(c18Block("label "+q, "required = true")), nil
	case "rule.label.token":
		return c18RuleBlock(c18Block(`label "foo"`, "token = "+q)), nil
	case "rule.label.value":
		return c18RuleBlock(c18Block(`label "foo"`, "value = "+q)), nil
	case "rule.reject.label_keys", "rule.reject.label_values", "rule.reject.annotation_keys", "rule.reject.annotation_values":
		return c18RuleBlock(c18Block("reject "+q, parts[2]+" = true")), nil
	case "rule.name.regex":
		return c18RuleBlock("name " + q + " {}\n"), nil
	case "rule.link.regex":
		return c18RuleBlock("link " + q + " {}\n"), nil
	case "rule.link.timeout":
		return c18RuleBlock(c18Block(`link ".*"`, "timeout = "+q)), nil
	case "rule.link.uri":
		// the pattern captures what follows the host (and an optional "?"): the rewrite may splice it into the URI
		return c18RuleBlock(c18Block("link "+hclQuote(`http://127\.0\.0\.1:1/\??(.*)`), "uri = "+q)), nil
	case "rule.cost.maxEvaluationDuration":
		return c18RuleBlock(c18Block("cost", "maxEvaluationDuration = "+q)), nil
	case "rule.cost.maxSeries":
		return c18RuleBlock(c18Block("cost", "maxSeries = "+raw)), nil
	case "rule.alerts.range", "rule.alerts.step", "rule.alerts.resolve":
		return c18RuleBlock(alerts(parts[2] + " = " + q)), nil
	case "rule.alerts.minCount":
		return c18RuleBlock(alerts("minCount = " + raw)), nil
	case "rule.for.min", "rule.keep_firing_for.min":
		return c18RuleBlock(c18Block(parts[1], "min = "+q, `max = "1h"`)), nil
	case "rule.for.max", "rule.keep_firing_for.max":
		return c18RuleBlock(c18Block(parts[1], `min = "1m"`, "max = "+q)), nil
	case "rule.range_query.max":
		return c18RuleBlock(c18Block("range_query", "max = "+q)), nil
	case "rule.report.comment":
		return c18RuleBlock(c18Block("report", "comment = "+q, `severity = "info"`)), nil
	case "rule.enable", "rule.disable":
		return c18RuleBlock(parts[1] + " = [" + q + "]\n"), nil
	case "parser.include", "parser.exclude", "parser.relaxed":
		return c18Block("parser", parts[1]+" = ["+q+"]"), nil
	case "parser.schema", "parser.names":
		return c18Block("parser", parts[1]+" = "+q), nil
	case "owners.allowed":
		return c18Block("owners", "allowed = ["+q+"]"), nil
	case "checks.enabled", "checks.disabled":
		return c18Block("checks", parts[1]+" = ["+q+"]"), nil
	case "ci.maxCommits":
		return c18Block("ci", "maxCommits = "+raw), nil
	case "check.series.ignoreMetrics":
		return c18Block(`check "promql/series"`, "ignoreMetrics = ["+q+"]"), nil
	case "check.series.lookbackRange", "check.series.lookbackStep", "check.series.fallbackTimeout":
		return c18Block(`check "promql/series"`, parts[2]+" = "+q), nil
	case "check.series.ignoreLabelsValue":
		return c18Block(`check "promql/series"`, "ignoreLabelsValue = {", "  "+q+" = [\"job\"]", "}"), nil
	case "prometheus.include", "prometheus.exclude", "prometheus.failover":
		return c18Block(`prometheus "p"`, puri, parts[1]+" = ["+q+"]"), nil
	case "prometheus.timeout", "prometheus.uptime":
		return c18Block(`prometheus "p"`, puri, parts[1]+" = "+q), nil
	case "prometheus.uri":
		return c18Block(`prometheus "p"`, "uri = "+q), nil
	case "prometheus.concurrency", "prometheus.rateLimit":
		return c18Block(`prometheus "p"`, puri, parts[1]+" = "+raw), nil
	}
	if cfg, ok := c18ConfigWide(opt, q, raw, promURI); ok {
		return cfg, nil
	}
	return "", fmt.Errorf("unknown option %s", opt)
}

type c18Field struct{ k, v string }

// c18Fields renders `k = v` lines, replacing (or adding) the field under test.
func c18Fields(base []c18Field, key, val string) []string {
	out := []string{}
	done := false
	for _, f := range base {
		if f.k == key {
			out = append(out, key+" = "+val)
			done = true
		} else {
			out = append(out, f.k+" = "+f.v)
		}
	}
	if !done {
		out = append(out, key+" = "+val)
	}
	return out
}

func c18Nest(outer string, inner ...string) string {
	var b strings.Builder
	b.WriteString(outer + " {\n")
	for _, in := range inner {
		b.WriteString("  " + strings.ReplaceAll(strings.TrimRight(in, "\n"), "\n", "\n  ") + "\n")
	}
	b.WriteString("}\n")
	return b.String()
}

// c18ConfigWide: prometheus{} extras, tls{}, check{} blocks, ci, discovery{} and repository{} (phase 2).
func c18ConfigWide(opt, q, raw, promURI string) (string, bool) {
	puri := hclQuote(promURI)
	last := opt[strings.LastIndex(opt, ".")+1:]
	listOrMap := func(key string) string {
		switch key {
		case "headers":
			return "{\n    \"X-Verif\" = " + q + "\n  }"
		case "failover", "include", "exclude", "tags", "ignore", "ignoreMatchingElsewhere":
			return "[" + q + "]"
		case "required", "skipVerify", "smelly", "maxComments", "project":
			return raw
		}
		return q
	}
	switch {
	case opt == "prometheus.publicURI" || opt == "prometheus.headers" || opt == "prometheus.tags" || opt == "prometheus.required":
		return c18Block(`prometheus "p"`, "uri = "+puri, last+" = "+listOrMap(last)), true
	case strings.HasPrefix(opt, "prometheus.tls."):
		return c18Nest(`prometheus "p"`, "uri = "+puri, c18Block("tls", last+" = "+listOrMap(last))), true
	case opt == "check.name":
		return "check " + q + " {}\n", true
	case opt == "check.regexp.smelly":
		return c18Block(`check "promql/regexp"`, "smelly = "+raw), true
	case opt == "check.series.ignoreMatchingElsewhere":
		return c18Block(`check "promql/series"`, "ignoreMatchingElsewhere = ["+q+"]"), true
	case opt == "ci.baseBranch":
		return c18Block("ci", "baseBranch = "+q), true
	case strings.HasPrefix(opt, "discovery.filepath."):
		fp := []c18Field{{"directory", `"servers"`}, {"match", hclQuote(`(?P<name>\w+)\.yml`)}}
		tp := []c18Field{{"name", hclQuote("d-{{ $name }}")}, {"uri", puri}}
		var fl, tl []string
		if strings.HasPrefix(opt, "discovery.filepath.template.") {
			fl, tl = c18Fields(fp, "", ""), c18Fields(tp, last, listOrMap(last))
			fl = fl[:len(fl)-1]
		} else {
			fl, tl = c18Fields(fp, last, listOrMap(last)), c18Fields(tp, "", "")
			tl = tl[:len(tl)-1]
		}
		return c18Nest("discovery", c18Nest("filepath", append(fl, c18Block("template", tl...))...)), true
	case strings.HasPrefix(opt, "discovery.query."):
		qp := []c18Field{{"uri", puri}, {"query", `"up"`}}
		tp := []c18Field{{"name", hclQuote("q-{{ $job }}")}, {"uri", puri}}
		var ql, tl []string
		if strings.HasPrefix(opt, "discovery.query.template.") {
			ql, tl = c18Fields(qp, "", ""), c18Fields(tp, last, listOrMap(last))
			ql = ql[:len(ql)-1]
		} else {
			ql, tl = c18Fields(qp, last, listOrMap(last)), c18Fields(tp, "", "")
			tl = tl[:len(tl)-1]
		}
		return c18Nest("discovery", c18Nest("prometheusQuery", append(ql, c18Block("template", tl...))...)), true
	case strings.HasPrefix(opt, "repository.bitbucket."):
		f := []c18Field{{"uri", `"http://127.0.0.1:1"`}, {"project", `"p"`}, {"repository", `"r"`}}
		v := q
		if last == "maxComments" {
			v = raw
		}
		return c18Nest("repository", c18Block("bitbucket", c18Fields(f, last, v)...)), true
	case strings.HasPrefix(opt, "repository.github."):
		f := []c18Field{{"owner", `"o"`}, {"repo", `"r"`}}
		v := q
		if last == "maxComments" {
			v = raw
		}
		return c18Nest("repository", c18Block("github", c18Fields(f, last, v)...)), true
	case strings.HasPrefix(opt, "repository.gitlab."):
		f := []c18Field{{"project", "1"}}
		v := q
		if last == "maxComments" || last == "project" {
			v = raw
		}
		return c18Nest("repository", c18Block("gitlab", c18Fields(f, last, v)...)), true
	}
	return "", false
}

func yq(s string) string { b, _ := json.Marshal(s); return string(b) }

func c18RuleFile(r c18Rule) string {
	var b strings.Builder
	b.WriteString("groups:\n- name: g\n  rules:\n")
	one := func(name string) {
		full := r.Shape == "full" || r.Shape == "pair"
		if r.Kind == "alerting" {
			fmt.Fprintf(&b, "  - alert: %s\n    expr: up == 0\n", yq(name))
			if full {
				fmt.Fprintf(&b, "    for: 5m\n    keep_firing_for: 5m\n    labels:\n      foo: %s\n    annotations:\n      summary: %s\n      link: %s\n",
					yq(r.Foo), yq(r.Summary), yq(r.Link))
			}
		} else {
			fmt.Fprintf(&b, "  - record: %s\n    expr: sum(gone)\n", yq(name))
			if full {
				fmt.Fprintf(&b, "    labels:\n      foo: %s\n", yq(r.Foo))
			}
		}
	}
	switch r.Shape {
	case "broken": // not a valid recording rule name: the rule fails to parse
		b.WriteString("  - record: foo{job=\"api\"}\n    expr: sum(up)\n")
	case "pair":
		one(r.Name)
		one(r.Name + "b")
	default:
		one(r.Name)
	}
	return b.String()
}

// a lint run of one rule takes milliseconds; a run still alive after this long (twice) is a hang
const c18Deadline = 12 * time.Second

var c18FrameRe = regexp.MustCompile(`^(github\.com/cloudflare/pint/[^\s(]+|main\.[A-Za-z0-9_.]+)`)

var errC18Hang = errors.New("deadline")

func c18Run(pint, dir string, deadline time.Duration, args ...string) (exit int, stderr string, err error) {
	ctx, cancel := context.WithTimeout(context.Background(), deadline)
	defer cancel()
	cmd := exec.CommandContext(ctx, pint, args...)
	cmd.Dir = dir
	// GOMAXPROCS=1: a panic in a scan worker runs the deferred wg.Done() before the runtime aborts, which lets
	// the main goroutine finish and exit 0 first on a busy multi-core box (seen in ~0.4% of crashing runs);
	// with one P the panicking goroutine is not overtaken (0 of 1500), so the crash observation is stable.
	cmd.Env = []string{"PATH=" + os.Getenv("PATH"), "HOME=" + dir, "LC_ALL=C", "TZ=UTC", "NO_PROXY=*", "GOMAXPROCS=1"}
	var se bytes.Buffer
	cmd.Stderr = &se
	e := cmd.Run()
	if ctx.Err() != nil {
		return 0, se.String(), errC18Hang
	}
	var ee *exec.ExitError
	if errors.As(e, &ee) {
		return ee.ExitCode(), se.String(), nil
	} else if e != nil {
		return 0, "", e
	}
	return 0, se.String(), nil
}

// c18AnchorProbe asks the real regexp package whether some short string over regexp metacharacters is valid
// alone but invalid between ^ and $ (config validates with regexp.Compile(v), uses MustCompile("^"+v+"$")).
func c18AnchorProbe() (tried, witnesses, grouped int, example, groupedExample string) {
	toks := []string{"a", "(", ")", "[", "]", "*", "+", "?", "|", "\\", "^", "$", "{", "}", "1", ",", ".", "(?", "i", ":", "\\Q", "\\E", "-", "P<", ">", "\\b", "\\z", "\\A"}
	var rec func(s string, d int)
	rec = func(s string, d int) {
		if d > 0 {
			tried++
			_, e1 := regexp.Compile(s)
			if e1 == nil {
				if _, e2 := regexp.Compile("^" + s + "$"); e2 != nil {
					witnesses++
					if example == "" {
						example = s
					}
				}
				if _, e3 := regexp.Compile("^(?:" + s + ")$"); e3 != nil {
					grouped++
					if groupedExample == "" {
						groupedExample = s
					}
				}
			}
		}
		if d == 3 {
			return
		}
		for _, t := range toks {
			rec(s+t, d+1)
		}
	}
	rec("", 0)
	return
}

func init() {
	register("exec-c18", func(in []json.RawMessage, out *Out, args []string) error {
		if len(args) < 1 {
			return errors.New("usage: exec-c18 -in cases -out trace <pint binary>")
		}
		pint := args[0]
		cases := make([]c18Case, len(in))
		for i, raw := range in {
			if err := json.Unmarshal(raw, &cases[i]); err != nil {
				return fmt.Errorf("case %d: %v", i+1, err)
			}
		}
		tried, wit, grp, ex, gex := c18AnchorProbe()
		out.Write(map[string]any{"ev": "AnchorProbe", "tried": tried, "witnesses": wit, "example": ex,
			"groupedWitnesses": grp, "groupedExample": gex})
		// one configuration per (option, value); all its rule files are linted in the same directory
		groups := map[string][]int{}
		var keys []string
		for i, c := range cases {
			k := c.Opt + "\x00" + c.Cls + "\x00" + c.Cls2
			if _, ok := groups[k]; !ok {
				keys = append(keys, k)
			}
			groups[k] = append(groups[k], i)
		}
		sort.Strings(keys)
		fake := c18Fake()
		defer fake.Close()
		root, err := os.MkdirTemp(shmDir(), "vh-c18-")
		if err != nil {
			return err
		}
		defer os.RemoveAll(root)
		errs := make([]error, len(keys))
		parallel(len(keys), runtime.NumCPU(), func(g int) {
			idx := groups[keys[g]]
			first := cases[idx[0]]
			dir := filepath.Join(root, strconv.Itoa(g))
			if err := os.MkdirAll(dir, 0o755); err != nil {
				errs[g] = err
				return
			}
			defer os.RemoveAll(dir)
			promURI := "http://127.0.0.1:1"
			if first.Mode == "prom" {
				promURI = fake.URL
			}
			var cfg string
			var err error
			if first.Pair {
				cfg, err = c18PairConfig(first.Opt, first.Text, first.Text2, promURI)
			} else {
				cfg, err = c18Config(first.Opt, first.Type, first.Text, first.Mode, promURI)
			}
			if err != nil {
				errs[g] = err
				return
			}
			if err := os.WriteFile(filepath.Join(dir, ".pint.hcl"), []byte(cfg), 0o644); err != nil {
				errs[g] = err
				return
			}
			// files some options point at: a junk PEM file and a directory of "server" files for filepath discovery
			_ = os.WriteFile(filepath.Join(dir, "junk.pem"), []byte("not a certificate\n"), 0o644)
			_ = os.MkdirAll(filepath.Join(dir, "servers"), 0o755)
			_ = os.WriteFile(filepath.Join(dir, "servers", "prom1.yml"), []byte("x: 1\n"), 0o644)
			_ = os.WriteFile(filepath.Join(dir, "servers", "prom2.yml"), []byte("x: 1\n"), 0o644)
			cexit, cse, err := c18Run(pint, dir, 120*time.Second, "--no-color", "config")
			if err != nil {
				errs[g] = err
				return
			}
			loadErr := ""
			if cexit != 0 {
				for _, ln := range strings.Split(cse, "\n") {
					if strings.Contains(ln, "level=ERROR") {
						loadErr = ln
						if len(loadErr) > 300 {
							loadErr = loadErr[:300]
						}
					}
				}
				if loadErr == "" {
					loadErr = "exit " + strconv.Itoa(cexit)
				}
				if strings.Contains(cse, "panic:") {
					loadErr = "PANIC in pint config: " + loadErr
				}
			}
			for _, i := range idx {
				c := cases[i]
				rec := c18Rec{Ev: "Case", ID: i + 1, Opt: c.Opt, Cls: c.Cls, Text: c.Text, Mode: c.Mode, Rule: c.Rule,
					Accepted: cexit == 0, LoadErr: loadErr, Pair: c.Pair, Cls2: c.Cls2, Text2: c.Text2}
				if cexit == 0 {
					if err := os.WriteFile(filepath.Join(dir, "rules.yml"), []byte(c18RuleFile(c.Rule)), 0o644); err != nil {
						errs[g] = err
						return
					}
					largs := []string{"--no-color"}
					if c.Mode == "offline" {
						largs = append(largs, "--offline")
					}
					largs = append(largs, "lint", "rules.yml")
					exit, se, err := c18Run(pint, dir, c18Deadline, largs...)
					if errors.Is(err, errC18Hang) {
						// run it once more: only a reproducible stall is recorded as a hang
						exit, se, err = c18Run(pint, dir, c18Deadline, largs...)
						if errors.Is(err, errC18Hang) {
							rec.Hang = true
							err = nil
						}
					}
					if err != nil {
						errs[g] = err
						return
					}
					rec.Ran = true
					rec.Exit = exit
					rec.Panic = strings.Contains(se, "panic:") || strings.Contains(se, "SIGSEGV") || strings.Contains(se, "fatal error:")
					if rec.Panic {
						for _, ln := range strings.Split(se, "\n") {
							if m := c18FrameRe.FindString(ln); m != "" {
								rec.Frame = m
								break
							}
						}
					}
				}
				out.Write(rec)
			}
		})
		for _, e := range errs {
			if e != nil {
				return e
			}
		}
		return nil
	})
}
