package main

// exec-c10: EXEC for the Masker family (C10).
// For every abstract file from GEN it (1) steps the real ContentReader line by line through the
// verif hook and records flags / surviving bytes (ReadLine events), (2) runs the real lint pipeline
// on every replacement of every documented-excluded line, embedded between real rules, and records
// how many distinct observable results came out (Variants events), (3) compares a file holding an
// excluded block with the block-free file (Shift events).

import (
	"bytes"
	"crypto/sha256"
	"encoding/hex"
	"encoding/json"
	"fmt"
	"os"
	"runtime"
	"strings"

	"github.com/cloudflare/pint/internal/parser"
	"github.com/cloudflare/pint/verifharness/pipe"
)

type c10Line struct {
	Cls  string `json:"cls"`
	Text string `json:"text"`
}
type c10Doc struct {
	Excl string `json:"excl"`
	Mode string `json:"mode"`
}
type c10Case struct {
	File    []c10Line `json:"file"`
	Doc     []c10Doc  `json:"doc"`
	EndMode string    `json:"endMode"`
}

var c10Cmt = map[string]string{
	"IgnLine": "# pint ignore/line", "NextLine": "# pint ignore/next-line", "Begin": "# pint ignore/begin",
	"End": "# pint ignore/end", "IgnFile": "# pint ignore/file", "FileCmt": "# pint file/disable alerts/comparison",
	"RuleCmt": "# pint disable alerts/comparison", "BadCmt": "# pint file/owner",
}

// payloads written on excluded lines: template directives, broken YAML, rule-looking text
var c10Nasty = []string{"{% set x = 1 %}", "  - [", "    - alert: ZZ", "  expr: up{", "\tkey: :",
	"{# zażółć gęślą jaźń — комментарий #}"}

func c10Alphabet(textOnCtl bool) (out []c10Line) {
	for _, t := range []string{"none", "P1", "P2"} {
		out = append(out, c10Line{"Plain", t})
	}
	for _, c := range []string{"IgnLine", "NextLine", "Begin", "End", "IgnFile", "FileCmt", "RuleCmt", "BadCmt"} {
		out = append(out, c10Line{c, "none"})
		if c == "IgnLine" || textOnCtl {
			out = append(out, c10Line{c, "P1"})
		}
	}
	return out
}

// benign text for a live line at a placement
func c10Benign(text, at string) string {
	if text == "none" {
		return ""
	}
	n := strings.ToLower(text)
	if at == "top" {
		return n + ": 1"
	}
	if at == "inexpr" {
		return "      + " + strings.TrimPrefix(n, "p")
	}
	return "  - {alert: " + text + ", expr: up}"
}

// the comment always starts at the same column, so replacing the text in front of it never moves it
func c10RenderAt(text, cls, at string) string {
	if at == "inexpr" && text == "" && c10Cmt[cls] != "" && cls != "IgnLine" && cls != "IgnFile" {
		return "      " + c10Cmt[cls]
	}
	return c10Render(text, cls)
}

func c10Render(text, cls string) string {
	c := c10Cmt[cls]
	switch {
	case text == "" && c == "":
		return ""
	case c == "":
		return text
	case text == "" && cls != "IgnLine" && cls != "IgnFile":
		return "  " + c
	}
	// pad by BYTES: reported columns are byte offsets
	if len(text) < 63 {
		text += strings.Repeat(" ", 63-len(text))
	}
	return text + " " + c
}

// concrete lines of the abstract file at a placement; excluded lines get nasty payload #0
func c10Concrete(cs c10Case, at string) []string {
	out := make([]string, len(cs.File))
	for k, ln := range cs.File {
		txt := c10Benign(ln.Text, at)
		if cs.Doc[k].Excl != "no" && ln.Text != "none" {
			txt = c10Nasty[0]
		}
		out[k] = c10RenderAt(txt, ln.Cls, at)
	}
	return out
}

func c10Embed(lines []string, at string) (content string, insertAfter int) {
	head := []string{"groups:", "- name: g", "  rules:", "  - alert: A1", "    expr: up"}
	tail := []string{"  - alert: A2", "    expr: up"}
	var all []string
	switch at {
	case "top":
		all = append(all, lines...)
		all = append(all, head...)
		all = append(all, tail...)
		insertAfter = 0
	case "mid":
		all = append(all, head...)
		all = append(all, lines...)
		all = append(all, tail...)
		insertAfter = len(head)
	case "inexpr":
		// inside a multi-line block scalar: positions of the expression must not depend on excluded text
		all = append(all, "groups:", "- name: g", "  rules:", "  - alert: A1", "    expr: |", "      up")
		insertAfter = len(all)
		all = append(all, lines...)
		all = append(all, "      > 0")
		all = append(all, tail...)
	default:
		all = append(all, head...)
		all = append(all, tail...)
		all = append(all, lines...)
		insertAfter = len(head) + len(tail)
	}
	return strings.Join(all, "\n") + "\n", insertAfter
}

// c10Hash hashes the observable result. Position entries ON the replaced line itself (maskLine) are
// left out: a range that spans the excluded line necessarily covers as many columns as that line is
// long, which is not an influence of the excluded text on anything else.
func c10Hash(res pipe.Result, maskLine int) (string, []byte) {
	if maskLine > 0 {
		reps := make([]pipe.Rep, len(res.Reports))
		copy(reps, res.Reports)
		for i := range reps {
			ds := make([]pipe.Diag, len(reps[i].Diags))
			copy(ds, reps[i].Diags)
			for j := range ds {
				var ps []pipe.Pos
				for _, p := range ds[j].Pos {
					if p.Line != maskLine {
						ps = append(ps, p)
					}
				}
				ds[j].Pos = ps
			}
			reps[i].Diags = ds
		}
		res.Reports = reps
	}
	type obs struct {
		Entries []pipe.EntryInfo
		Reports []pipe.Rep
		Panic   bool
		FindErr string
	}
	b, _ := json.Marshal(obs{res.Entries, res.Reports, res.Panic != "", res.FindErr})
	h := sha256.Sum256(b)
	return hex.EncodeToString(h[:8]), b
}

func c10Shift(res *pipe.Result, after, n int) {
	sh := func(x *int) {
		if *x > after {
			*x += n
		}
	}
	for i := range res.Entries {
		sh(&res.Entries[i].First)
		sh(&res.Entries[i].Last)
		sh(&res.Entries[i].ErrLine)
		res.Entries[i].TotalLine += n
	}
	for i := range res.Reports {
		r := &res.Reports[i]
		sh(&r.First)
		sh(&r.Last)
		sh(&r.RuleFirst)
		sh(&r.RuleLast)
		for j := range r.Diags {
			for k := range r.Diags[j].Pos {
				sh(&r.Diags[j].Pos[k].Line)
			}
		}
	}
}

func init() {
	register("exec-c10", func(in []json.RawMessage, out *Out, args []string) error {
		textOnCtl := os.Getenv("C10_TEXT_ON_CTL") == "1"
		thorough := os.Getenv("VERIF_TIER") == "thorough"
		alphabet := c10Alphabet(textOnCtl)
		type rec = map[string]any
		results := make([][]rec, len(in))
		var firstErr error
		parallel(len(in), runtime.NumCPU(), func(idx int) {
			var cs c10Case
			if err := json.Unmarshal(in[idx], &cs); err != nil {
				firstErr = err
				return
			}
			id := idx + 1
			var recs []rec
			recs = append(recs, rec{"ev": "Reset", "id": id})
			// (1) step-level
			var raw []string
			for _, ln := range cs.File {
				raw = append(raw, c10Render(c10Benign(ln.Text, "mid"), ln.Cls))
			}
			steps, _, _ := parser.VerifReadLines(strings.NewReader(strings.Join(raw, "\n") + "\n"))
			if len(steps) != len(raw) {
				firstErr = fmt.Errorf("case %d: %d steps for %d lines", id, len(steps), len(raw))
				return
			}
			pc, pd := 0, 0
			for k, st := range steps {
				ln := cs.File[k]
				orig := raw[k]
				masked := strings.TrimSuffix(st.Line, "\n")
				off := len(orig)
				if c := c10Cmt[ln.Cls]; c != "" {
					off = strings.Index(orig, c)
				}
				part := func(o, m string, keep string) string {
					switch {
					case strings.TrimSpace(o) == "":
						return "blank"
					case o == m:
						return keep
					case strings.TrimSpace(m) == "" && len(m) == len(o):
						return "blank"
					}
					return "partial:" + m
				}
				otext := part(orig[:off], masked[:min(off, len(masked))], ln.Text)
				ocmt := "blank"
				if ln.Cls != "Plain" {
					ocmt = part(orig[off:], masked[min(off, len(masked)):], ln.Cls)
				}
				recs = append(recs, rec{"ev": "ReadLine", "id": id, "cls": ln.Cls, "text": ln.Text,
					"skipAll": st.SkipAll, "skipNext": st.SkipNext, "autoReset": st.AutoReset, "inBegin": st.InBegin,
					"otext": otext, "ocmt": ocmt, "coll": st.Comments > pc, "diag": st.Diags > pd})
				pc, pd = st.Comments, st.Diags
			}
			// (2) property-level: variants of every excluded line through the real pipeline
			dir, _ := os.MkdirTemp(shmDir(), "c10-")
			defer os.RemoveAll(dir)
			run := func(content string, strict bool) pipe.Result {
				return pipe.Lint(dir, map[string][]byte{"rules.yml": []byte(content)}, []string{"rules.yml"},
					pipe.Opts{Strict: strict, Offline: true, Command: "lint"})
			}
			for k := range cs.File {
				if cs.Doc[k].Excl == "no" {
					continue
				}
				for _, at := range []string{"top", "mid", "end", "inexpr"} {
					for _, mode := range []string{"strict", "relaxed"} {
						base := c10Concrete(cs, at)
						seen := map[string]string{}
						var firstContent, diffContent string
						var firstObs, diffObs []byte
						n := 0
						for _, v := range alphabet {
							if cs.Doc[k].Excl == "prefix" && v.Cls != cs.File[k].Cls {
								continue
							}
							if cs.Doc[k].Excl == "whole" && cs.Doc[k].Mode == "Block" && v.Cls == "End" {
								continue
							}
							texts := []string{""}
							if v.Text != "none" {
								texts = c10Nasty
								if !thorough && v.Cls != "Plain" && v.Cls != "IgnLine" {
									// quick tier: two of the payloads in front of other control comments, rotating
									r := (idx + k) % len(c10Nasty)
									texts = []string{c10Nasty[r], c10Nasty[(r+3)%len(c10Nasty)]}
								}
							}
							for _, t := range texts {
								lines := append([]string{}, base...)
								lines[k] = c10RenderAt(t, v.Cls, at)
								content, after := c10Embed(lines, at)
								h, ob := c10Hash(run(content, mode == "strict"), after+k+1)
								n++
								if _, ok := seen[h]; !ok {
									seen[h] = content
									if len(seen) == 1 {
										firstContent, firstObs = content, ob
									} else if len(seen) == 2 {
										diffContent, diffObs = content, ob
									}
								}
							}
						}
						r := rec{"ev": "Variants", "id": id, "k": k + 1, "at": at, "mode": mode, "n": n, "distinct": len(seen), "diff": ""}
						if len(seen) > 1 {
							r["diff"] = map[string]string{"a": firstContent, "b": diffContent, "obs_a": string(firstObs), "obs_b": string(diffObs)}
						}
						recs = append(recs, r)
					}
				}
			}
			// (3) shift: the abstract file is one excluded block (every line excluded or a live ignore comment)
			pure := len(cs.File) > 0 && cs.EndMode == "Normal"
			for k, ln := range cs.File {
				switch cs.Doc[k].Excl {
				case "no":
					if !(ln.Cls == "NextLine" || ln.Cls == "Begin" || ln.Cls == "End") || ln.Text != "none" {
						pure = false
					}
				case "prefix":
					if ln.Cls != "IgnLine" {
						pure = false
					}
				}
			}
			if pure {
				for _, at := range []string{"top", "mid", "end", "inexpr"} {
					for _, mode := range []string{"strict", "relaxed"} {
						with, after := c10Embed(c10Concrete(cs, at), at)
						without, _ := c10Embed(nil, at)
						rw := run(with, mode == "strict")
						ro := run(without, mode == "strict")
						c10Shift(&ro, after, len(cs.File))
						hw, ow := c10Hash(rw, 0)
						ho, oo := c10Hash(ro, 0)
						r := rec{"ev": "Shift", "id": id, "at": at, "mode": mode, "same": hw == ho, "diff": ""}
						if hw != ho && !bytes.Equal(ow, oo) {
							r["diff"] = map[string]string{"a": with, "b": without, "obs_a": string(ow), "obs_b": string(oo)}
						}
						recs = append(recs, r)
					}
				}
			}
			results[idx] = recs
		})
		if firstErr != nil {
			return firstErr
		}
		for _, rs := range results {
			for _, r := range rs {
				out.Write(r)
			}
		}
		return nil
	})
}
