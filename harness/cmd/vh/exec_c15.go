package main

// exec-c15: EXEC for the Failover family (C15).
// A case assigns a fault mode to each of three upstreams, names the API endpoint and `required`.
// Phase A: the real promapi.FailoverGroup over three fake listeners is asked once; recorded are the
//          per-upstream request counts, whether the call succeeded, and a projection of the error
//          (APIError type, IsUnavailableError, ErrUnsupported, upstream the error is attributed to).
// Phase B: the real lint pipeline runs one online check that uses that endpoint, with a
//          `prometheus {}` block (uri + failover, timeout, required) pointing at three fresh
//          listeners in the same modes; recorded are the problems (reporter, summary, severity),
//          per-upstream request counts and any panic.
// No judgement happens here.

import (
	"context"
	"encoding/json"
	"errors"
	"fmt"
	"net/url"
	"os"
	"strconv"
	"strings"
	"time"

	"github.com/prometheus/client_golang/prometheus"

	"github.com/cloudflare/pint/internal/promapi"
	"github.com/cloudflare/pint/verifharness/pipe"
	"github.com/cloudflare/pint/verifharness/promsrv"
)

type c15Case struct {
	Ep       string   `json:"ep"`
	Modes    []string `json:"modes"`
	ID       int      `json:"id"`
	Required bool     `json:"required"`
}

const c15Timeout = 900 * time.Millisecond // the client gives up after timeout + 1s; generous, the machine may be busy

func c15Servers(modes []string) ([]*promsrv.Server, error) {
	var out []*promsrv.Server
	for _, m := range modes {
		mode := m
		s, err := promsrv.Start(mode != promsrv.Refused)
		if err != nil {
			return nil, err
		}
		s.MaxHold = 5 * time.Second
		s.Plan = func(promsrv.Entry, url.Values) promsrv.Action { return promsrv.Action{Fault: mode} }
		s.Body = c15Body
		out = append(out, s)
	}
	return out, nil
}

// answers that keep the checks of phase B quiet
func c15Body(e promsrv.Entry, form url.Values) string {
	switch {
	case strings.HasSuffix(e.Path, "/api/v1/query"):
		return `{"status":"success","data":{"resultType":"vector","result":[{"metric":{},"value":[1700000000,"1"]}]}}`
	case strings.HasSuffix(e.Path, "/api/v1/query_range"):
		return `{"status":"success","data":{"resultType":"matrix","result":[]}}`
	case strings.HasSuffix(e.Path, "/api/v1/status/config"):
		return `{"status":"success","data":{"yaml":"global:\n  scrape_interval: 30s\n  external_labels:\n    cluster: \"a\"\n"}}`
	case strings.HasSuffix(e.Path, "/api/v1/status/flags"):
		return `{"status":"success","data":{"storage.tsdb.retention.time":"15d"}}`
	case strings.HasSuffix(e.Path, "/api/v1/metadata"):
		return fmt.Sprintf(`{"status":"success","data":{%q:[{"type":"gauge","help":"h","unit":""}]}}`, form.Get("metric"))
	}
	return `{"status":"success","data":{}}`
}

func c15Counts(srvs []*promsrv.Server) []int {
	out := make([]int, len(srvs))
	for i, s := range srvs {
		out[i] = s.Count()
	}
	return out
}

var c15Check = map[string]string{
	"query":       "query/cost",
	"query_range": "alerts/count",
	"config":      "alerts/external_labels",
	"flags":       "promql/range_query",
	"metadata":    "promql/counter",
}

const c15Rules = `groups:
- name: g
  rules:
  - alert: ErrorsHigh
    expr: sum(errors_total) > 5
    labels:
      severity: page
`

func c15HCL(srvs []*promsrv.Server, cs c15Case) string {
	var fo []string
	for _, s := range srvs[1:] {
		fo = append(fo, strconv.Quote(s.URL()))
	}
	extra := ""
	switch cs.Ep {
	case "query":
		extra = "rule {\n  cost {}\n}\n"
	case "query_range":
		extra = "rule {\n  alerts {\n    range = \"1h\"\n    step = \"1m\"\n    resolve = \"5m\"\n  }\n}\n"
	}
	return fmt.Sprintf("prometheus \"prom\" {\n  uri = %q\n  failover = [%s]\n  timeout = %q\n  required = %v\n  rateLimit = 10000\n  concurrency = 4\n}\nchecks {\n  enabled = [%q]\n}\n%s",
		srvs[0].URL(), strings.Join(fo, ", "), c15Timeout.String(), cs.Required, c15Check[cs.Ep], extra)
}

// c15Holes: a listening upstream saw no request although a later one did. The code under test walks
// the upstreams in order, so this can only be a request that died before it reached the listener
// (local socket trouble on a busy machine); such a run is repeated, and recorded if it persists.
func c15Holes(modes []string, counts []int) bool {
	for k := range counts {
		if counts[k] == 0 && modes[k] != promsrv.Refused {
			for _, n := range counts[k+1:] {
				if n > 0 {
					return true
				}
			}
		}
	}
	return false
}

func c15Run(cs c15Case) (rec map[string]any, err error) {
	for attempt := 1; ; attempt++ {
		rec, err = c15RunOnce(cs)
		if err != nil {
			return nil, err
		}
		a, b := rec["a"].(map[string]any), rec["b"].(map[string]any)
		rec["attempts"] = attempt
		if attempt >= 3 || !(c15Holes(cs.Modes, a["counts"].([]int)) || c15Holes(cs.Modes, b["counts"].([]int))) {
			return rec, nil
		}
	}
}

func c15RunOnce(cs c15Case) (rec map[string]any, err error) {
	rec = map[string]any{"ev": "Case", "id": cs.ID, "modes": cs.Modes, "ep": cs.Ep, "required": cs.Required}
	// ---- phase A: one call on the real FailoverGroup
	srvs, err := c15Servers(cs.Modes)
	if err != nil {
		return nil, err
	}
	var proms []*promapi.Prometheus
	for _, s := range srvs {
		proms = append(proms, promapi.NewPrometheus("prom", s.URL(), "", nil, c15Timeout, 4, 10000, nil))
	}
	reg := prometheus.NewRegistry()
	fg := promapi.NewFailoverGroup("prom", srvs[0].URL(), proms, cs.Required, "up", nil, nil, nil)
	fg.StartWorkers(reg)
	ctx := context.Background()
	var cerr error
	var panicked string
	func() {
		defer func() {
			if r := recover(); r != nil {
				panicked = fmt.Sprint(r)
			}
		}()
		switch cs.Ep {
		case "query":
			_, cerr = fg.Query(ctx, "count(up)")
		case "query_range":
			_, cerr = fg.RangeQuery(ctx, "count(up)", promapi.NewRelativeRange(time.Hour, time.Minute))
		case "config":
			_, cerr = fg.Config(ctx, 0)
		case "flags":
			_, cerr = fg.Flags(ctx)
		case "metadata":
			_, cerr = fg.Metadata(ctx, "up")
		}
	}()
	fg.Close(reg)
	a := map[string]any{"counts": c15Counts(srvs), "ok": cerr == nil && panicked == "", "panic": panicked,
		"err": "none", "unavailable": false, "unsupported": false, "at": 0, "strict": false, "text": ""}
	if cerr != nil {
		a["text"] = cerr.Error()
		a["unavailable"] = promapi.IsUnavailableError(cerr)
		a["unsupported"] = errors.Is(cerr, promapi.ErrUnsupported)
		var ae promapi.APIError
		switch {
		case errors.Is(cerr, promapi.ErrUnsupported):
			a["err"] = "ErrUnsupported"
		case errors.As(cerr, &ae):
			a["err"] = string(ae.ErrorType)
		default:
			a["err"] = "transport"
		}
		var fe *promapi.FailoverGroupError
		if errors.As(cerr, &fe) {
			a["strict"] = fe.IsStrict()
			for i, s := range srvs {
				if fe.URI() == s.URL() {
					a["at"] = i + 1
				}
			}
		}
	} else {
		// success is attributed to the last upstream that received a request
		for i, n := range c15Counts(srvs) {
			if n > 0 {
				a["at"] = i + 1
			}
		}
	}
	for _, s := range srvs {
		s.Close()
	}
	rec["a"] = a

	// ---- phase B: an online check through the real pipeline and the real configuration loader
	srvs, err = c15Servers(cs.Modes)
	if err != nil {
		return nil, err
	}
	dir, err := os.MkdirTemp(shmDir(), "c15-")
	if err != nil {
		return nil, err
	}
	defer os.RemoveAll(dir)
	res := pipe.Lint(dir, map[string][]byte{"rules.yml": []byte(c15Rules)}, []string{"rules.yml"},
		pipe.Opts{Strict: true, Config: c15HCL(srvs, cs), Command: "lint"})
	probs := []map[string]any{}
	for _, r := range res.Reports {
		probs = append(probs, map[string]any{"reporter": r.Reporter, "summary": r.Summary, "severity": r.Severity})
	}
	ran := false
	for _, e := range res.Entries {
		for _, c := range e.Checks {
			if strings.HasPrefix(c, c15Check[cs.Ep]) {
				ran = true
			}
		}
	}
	rec["b"] = map[string]any{"counts": c15Counts(srvs), "problems": probs, "panic": res.Panic != "", "paniclog": res.Panic,
		"cfgerr": res.CfgErr + res.FindErr, "check": c15Check[cs.Ep], "ran": ran}
	for _, s := range srvs {
		s.Close()
	}
	return rec, nil
}

func init() {
	register("exec-c15", func(in []json.RawMessage, out *Out, args []string) error {
		par := 32
		if s := os.Getenv("C15_PAR"); s != "" {
			if n, err := strconv.Atoi(s); err == nil && n > 0 {
				par = n
			}
		}
		recs := make([]map[string]any, len(in))
		errs := make([]error, len(in))
		parallel(len(in), par, func(idx int) {
			var cs c15Case
			if err := json.Unmarshal(in[idx], &cs); err != nil {
				errs[idx] = err
				return
			}
			if cs.ID == 0 {
				cs.ID = idx + 1
			}
			recs[idx], errs[idx] = c15Run(cs)
		})
		for _, e := range errs {
			if e != nil {
				return e
			}
		}
		for _, r := range recs {
			out.Write(r)
		}
		return nil
	})
}
