package main

// exec-c15: EXEC for the Failover family (C15).
// A case assigns a fault mode to each of three upstreams, names the API endpoint and `required`.
// Phase A: the real promapi.FailoverGroup over three fake listeners is asked once; recorded are the
//          per-upstream request counts, whether the call succeeded, and a projection of the error
//          (APIError type, IsUnavailableError, ErrUnsupported, upstream the error is attributed to).
// Phase B: the real lint pipeline runs one online check that uses that endpoint, with a
//          `prometheus {}` block (uri + failover, timeout, required) pointing at three fresh
//          listeners in the same modes; recorded are the problems (reporter, summary, severity),
//          per-upstream request counts and any panic.
// No judgement happens here.

import (
	"context"
	"encoding/json"
	"errors"
	"fmt"
	"net/url"
	"os"
	"regexp"
	"strconv"
	"strings"
	"time"

	"github.com/prometheus/client_golang/prometheus"

	"github.com/cloudflare/pint/internal/config"
	"github.com/cloudflare/pint/internal/discovery"
	"github.com/cloudflare/pint/internal/promapi"
	"github.com/cloudflare/pint/internal/reporter"
	"github.com/cloudflare/pint/verifharness/pipe"
	"github.com/cloudflare/pint/verifharness/promsrv"
)

type c15Case struct {
	Inc      string   `json:"inc"` // none | hit | miss: include patterns vs the rule file path
	Exc      string   `json:"exc"`
	Ep       string   `json:"ep"`
	Modes    []string `json:"modes"`
	ID       int      `json:"id"`
	Required bool     `json:"required"`
}

const c15Timeout = 900 * time.Millisecond // the client gives up after timeout + 1s; generous, the machine may be busy

func c15Servers(modes []string) ([]*promsrv.Server, error) {
	var out []*promsrv.Server
	for _, m := range modes {
		mode := m
		s, err := promsrv.Start(mode != promsrv.Refused)
		if err != nil {
			return nil, err
		}
		s.MaxHold = 5 * time.Second
		s.Plan = func(promsrv.Entry, url.Values) promsrv.Action { return promsrv.Action{Fault: mode} }
		s.Body = c15Body
		out = append(out, s)
	}
	return out, nil
}

// answers that keep the checks of phase B quiet
func c15Body(e promsrv.Entry, form url.Values) string {
	switch {
	case strings.HasSuffix(e.Path, "/api/v1/query"):
		return `{"status":"success","data":{"resultType":"vector","result":[{"metric":{},"value":[1700000000,"1"]}]}}`
	case strings.HasSuffix(e.Path, "/api/v1/query_range"):
		if form.Get("query") == "count(my_up)" {
			return `{"status":"success","data":{"resultType":"matrix","result":[]}}`
		}
		return `{"status":"success","data":{"resultType":"matrix","result":[{"metric":{},"values":[[1700000000,"1"]]}]}}`
	case strings.HasSuffix(e.Path, "/api/v1/status/config"):
		return `{"status":"success","data":{"yaml":"global:\n  scrape_interval: 30s\n  external_labels:\n    cluster: \"a\"\n"}}`
	case strings.HasSuffix(e.Path, "/api/v1/status/flags"):
		return `{"status":"success","data":{"storage.tsdb.retention.time":"15d"}}`
	case strings.HasSuffix(e.Path, "/api/v1/metadata"):
		return fmt.Sprintf(`{"status":"success","data":{%q:[{"type":"gauge","help":"h","unit":""}]}}`, form.Get("metric"))
	}
	return `{"status":"success","data":{}}`
}

func c15Counts(srvs []*promsrv.Server) []int {
	out := make([]int, len(srvs))
	for i, s := range srvs {
		out[i] = s.Count()
	}
	return out
}

var c15Check = map[string]string{
	"query":       "query/cost",
	"query_range": "alerts/count",
	"config":      "alerts/external_labels",
	"flags":       "promql/range_query",
	"metadata":    "promql/counter",
}

// path patterns of the routing dimension (the rule file is <dir>/rules.yml; pint anchors the patterns)
var c15Pattern = map[string]string{"hit": ".*rules\\.yml", "miss": ".*/other/.*"}

func c15Regexps(kind string) []*regexp.Regexp {
	if p := c15Pattern[kind]; p != "" {
		return []*regexp.Regexp{regexp.MustCompile("^" + p + "$")}
	}
	return nil
}

const c15Rules = `groups:
- name: g
  rules:
  - alert: ErrorsHigh
    expr: sum(errors_total) > 5
    labels:
      severity: page
`

func c15HCL(srvs []*promsrv.Server, cs c15Case) string {
	var fo []string
	for _, s := range srvs[1:] {
		fo = append(fo, strconv.Quote(s.URL()))
	}
	extra := ""
	switch cs.Ep {
	case "query":
		extra = "rule {\n  cost {}\n}\n"
	case "query_range":
		extra = "rule {\n  alerts {\n    range = \"1h\"\n    step = \"1m\"\n    resolve = \"5m\"\n  }\n}\n"
	}
	route := ""
	if p := c15Pattern[cs.Inc]; p != "" {
		route += fmt.Sprintf("  include = [%q]\n", p)
	}
	if p := c15Pattern[cs.Exc]; p != "" {
		route += fmt.Sprintf("  exclude = [%q]\n", p)
	}
	return fmt.Sprintf("prometheus \"prom\" {\n  uri = %q\n  failover = [%s]\n  timeout = %q\n  required = %v\n  rateLimit = 10000\n  concurrency = 4\n  uptime = \"my_up\"\n%s}\nchecks {\n  enabled = [%q]\n}\n%s",
		srvs[0].URL(), strings.Join(fo, ", "), c15Timeout.String(), cs.Required, route, c15Check[cs.Ep], extra)
}

// c15Holes: a listening upstream saw no request although a later one did. The code under test walks
// the upstreams in order, so this can only be a request that died before it reached the listener
// (local socket trouble on a busy machine); such a run is repeated, and recorded if it persists.
func c15Holes(modes []string, counts []int) bool {
	for k := range counts {
		if counts[k] == 0 && modes[k] != promsrv.Refused {
			for _, n := range counts[k+1:] {
				if n > 0 {
					return true
				}
			}
		}
	}
	return false
}

func c15Run(cs c15Case) (rec map[string]any, err error) {
	for attempt := 1; ; attempt++ {
		rec, err = c15RunOnce(cs)
		if err != nil {
			return nil, err
		}
		a, b := rec["a"].(map[string]any), rec["b"].(map[string]any)
		rec["attempts"] = attempt
		if attempt >= 3 || !(c15Holes(cs.Modes, a["counts"].([]int)) || c15Holes(cs.Modes, b["counts"].([]int))) {
			return rec, nil
		}
	}
}

func c15RunOnce(cs c15Case) (rec map[string]any, err error) {
	if cs.Inc == "" {
		cs.Inc = "none"
	}
	if cs.Exc == "" {
		cs.Exc = "none"
	}
	rec = map[string]any{"ev": "Case", "id": cs.ID, "modes": cs.Modes, "ep": cs.Ep, "required": cs.Required, "inc": cs.Inc, "exc": cs.Exc}
	// ---- phase A: one call on the real FailoverGroup
	srvs, err := c15Servers(cs.Modes)
	if err != nil {
		return nil, err
	}
	var proms []*promapi.Prometheus
	for _, s := range srvs {
		proms = append(proms, promapi.NewPrometheus("prom", s.URL(), "", nil, c15Timeout, 4, 10000, nil))
	}
	reg := prometheus.NewRegistry()
	fg := promapi.NewFailoverGroup("prom", srvs[0].URL(), proms, cs.Required, "up", c15Regexps(cs.Inc), c15Regexps(cs.Exc), nil)
	fg.StartWorkers(reg)
	ctx := context.Background()
	var cerr error
	var panicked string
	call := func() {
		defer func() {
			if r := recover(); r != nil {
				panicked = fmt.Sprint(r)
			}
		}()
		switch cs.Ep {
		case "query":
			_, cerr = fg.Query(ctx, "count(up)")
		case "query_range":
			// fixed window: a repeated call is the identical question. 6h/5m is cut into three 2h slices that are
			// requested concurrently, so the aggregation of per-slice errors (one slice's query error cancels its
			// siblings) sits between the upstream's answer and the failover decision; phase B keeps the one-slice
			// window (alerts/count range=1h).
			_, cerr = fg.RangeQuery(ctx, "count(up)", c14Range{6 * time.Hour, 5 * time.Minute})
		case "config":
			_, cerr = fg.Config(ctx, 0)
		case "flags":
			_, cerr = fg.Flags(ctx)
		case "metadata":
			_, cerr = fg.Metadata(ctx, "up")
		}
	}
	call()
	counts1 := c15Counts(srvs)
	err1 := cerr
	// the same question again on the same group (skipped when it would wait for a timeout again)
	counts2 := []int{-1, -1, -1}
	again := true
	for _, m := range cs.Modes {
		if m == promsrv.Timeout {
			again = false
		}
	}
	if again && panicked == "" {
		call()
		counts2 = c15Counts(srvs)
		for i := range counts2 {
			counts2[i] -= counts1[i]
		}
	}
	cerr = err1
	enabled := fg.IsEnabledForPath("/x/rules.yml")
	fg.Close(reg)
	a := map[string]any{"counts": counts1, "counts2": counts2, "enabled": enabled, "ok": cerr == nil && panicked == "", "panic": panicked,
		"err": "none", "unavailable": false, "unsupported": false, "at": 0, "strict": false, "text": ""}
	if cerr != nil {
		a["text"] = cerr.Error()
		a["unavailable"] = promapi.IsUnavailableError(cerr)
		a["unsupported"] = errors.Is(cerr, promapi.ErrUnsupported)
		var ae promapi.APIError
		switch {
		case errors.Is(cerr, promapi.ErrUnsupported):
			a["err"] = "ErrUnsupported"
		case errors.As(cerr, &ae):
			a["err"] = string(ae.ErrorType)
		default:
			a["err"] = "transport"
		}
		var fe *promapi.FailoverGroupError
		if errors.As(cerr, &fe) {
			a["strict"] = fe.IsStrict()
			for i, s := range srvs {
				if fe.URI() == s.URL() {
					a["at"] = i + 1
				}
			}
		}
	} else {
		// success is attributed to the last upstream that received a request
		for i, n := range counts1 {
			if n > 0 {
				a["at"] = i + 1
			}
		}
	}
	for _, s := range srvs {
		s.Close()
	}
	rec["a"] = a

	// ---- phase B: an online check through the real pipeline and the real configuration loader
	srvs, err = c15Servers(cs.Modes)
	if err != nil {
		return nil, err
	}
	dir, err := os.MkdirTemp(shmDir(), "c15-")
	if err != nil {
		return nil, err
	}
	defer os.RemoveAll(dir)
	hcl := c15HCL(srvs, cs)
	res := pipe.Lint(dir, map[string][]byte{"rules.yml": []byte(c15Rules)}, []string{"rules.yml"},
		pipe.Opts{Strict: true, Config: hcl, Command: "lint", Offline: true}) // parsing only
	b := c15Online(dir, hcl, res.RawEntries)
	b["counts"], b["check"] = c15Counts(srvs), c15Check[cs.Ep]
	if res.CfgErr+res.FindErr != "" {
		b["cfgerr"] = res.CfgErr + res.FindErr
	}
	uptime := false
	for _, s := range srvs {
		for _, e := range s.Log() {
			if e.Form["query"] == "count(my_up)" {
				uptime = true
			}
		}
	}
	b["uptime"] = uptime
	rec["b"] = b
	for _, s := range srvs {
		s.Close()
	}
	return rec, nil
}

// c15Online runs the online checks the way cmd/pint/scan.go does (configuration loader, Prometheus generator,
// GetChecksForEntry, Check) and then reads what was registered as disabled, through the real Summary.
func c15Online(dir, hcl string, entries []discovery.Entry) (b map[string]any) {
	b = map[string]any{"problems": []map[string]any{}, "panic": false, "paniclog": "", "cfgerr": "", "ran": false,
		"disabled": []map[string]any{}}
	defer func() {
		if r := recover(); r != nil {
			b["panic"], b["paniclog"] = true, fmt.Sprint(r)
		}
	}()
	cfg, err := pipe.LoadConfig(dir, hcl)
	if err != nil {
		b["cfgerr"] = err.Error()
		return b
	}
	gen := config.NewPrometheusGenerator(cfg, prometheus.NewRegistry())
	defer gen.Stop()
	if err := gen.GenerateStatic(); err != nil {
		b["cfgerr"] = err.Error()
		return b
	}
	ctx := context.WithValue(context.Background(), config.CommandKey, config.LintCommand)
	ctx = context.WithValue(ctx, promapi.AllPrometheusServers, gen.Servers())
	probs := []map[string]any{}
	for _, entry := range entries {
		for _, chk := range cfg.GetChecksForEntry(ctx, gen, entry) {
			if !chk.Meta().Online {
				continue
			}
			b["ran"] = true
			for _, p := range chk.Check(ctx, entry, entries) {
				probs = append(probs, map[string]any{"reporter": p.Reporter, "summary": p.Summary, "severity": p.Severity.String()})
			}
		}
	}
	b["problems"] = probs
	summary := reporter.NewSummary(nil)
	for _, prom := range gen.Servers() {
		for api, names := range prom.GetDisabledChecks() {
			summary.MarkCheckDisabled(prom.Name(), api, names)
		}
	}
	dis := []map[string]any{}
	for _, pd := range summary.GetPrometheusDetails() {
		for _, dc := range pd.DisabledChecks {
			for _, c := range dc.Checks {
				dis = append(dis, map[string]any{"prom": pd.Name, "api": dc.API, "check": c})
			}
		}
	}
	b["disabled"] = dis
	return b
}

func init() {
	register("exec-c15", func(in []json.RawMessage, out *Out, args []string) error {
		par := 32
		if s := os.Getenv("C15_PAR"); s != "" {
			if n, err := strconv.Atoi(s); err == nil && n > 0 {
				par = n
			}
		}
		recs := make([]map[string]any, len(in))
		errs := make([]error, len(in))
		parallel(len(in), par, func(idx int) {
			var cs c15Case
			if err := json.Unmarshal(in[idx], &cs); err != nil {
				errs[idx] = err
				return
			}
			if cs.ID == 0 {
				cs.ID = idx + 1
			}
			recs[idx], errs[idx] = c15Run(cs)
		})
		for _, e := range errs {
			if e != nil {
				return e
			}
		}
		for _, r := range recs {
			out.Write(r)
		}
		return nil
	})
}
