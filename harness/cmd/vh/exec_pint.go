package main

// exec-pint: EXEC for spec/Pint.tla (end-to-end composition Masker -> parse -> Dispatch -> Scan -> Exit).
// Every case is a two-file input of abstract Masker lines, a configuration choice and a worker count; the real
// `pint lint` binary is run on the rendered files and the end-to-end trace is recorded:
//   entries with the checks dispatched for each (pint's debug log), the problems of the --json report,
//   the exit status.
// No judgement here (spec/PintTrace.tla).

import (
	"bufio"
	"bytes"
	"encoding/json"
	"errors"
	"fmt"
	"os"
	"os/exec"
	"path/filepath"
	"runtime"
	"sort"
	"strconv"
	"strings"
)

type pintLine struct {
	Cls  string `json:"cls"`
	Text string `json:"text"`
}

type pintOpts struct {
	Prom     bool     `json:"prom"`
	Offline  bool     `json:"offline"`
	Disabled []string `json:"disabled"`
}

type pintCase struct {
	Files [][]pintLine `json:"files"`
	Opts  pintOpts     `json:"opts"`
	Ws    []int        `json:"ws"`
}

var pintCmt = map[string]string{
	"RuleCmt": "# pint disable alerts/comparison", "IgnLine": "# pint ignore/line", "NextLine": "# pint ignore/next-line",
	"Begin": "# pint ignore/begin", "End": "# pint ignore/end", "IgnFile": "# pint ignore/file",
	"FileCmt": "# pint file/disable alerts/comparison",
}

// pintRender: the first three lines are the group header, line 4 the fixed recording rule.
func pintRender(lines []pintLine) string {
	var b strings.Builder
	for i, l := range lines {
		text := ""
		switch {
		case i == 0:
			text = "groups:"
		case i == 1:
			text = "- name: g"
		case i == 2:
			text = "  rules:"
		case i == 3:
			text = "  - {record: keep, expr: up}"
		case l.Text == "P1":
			text = "  - {alert: P1, expr: up}"
		case l.Text == "P2":
			text = "  - {alert: P2}"
		}
		if c := pintCmt[l.Cls]; c != "" {
			if text == "" {
				text = "  " + c
			} else {
				text += " " + c
			}
		}
		b.WriteString(text + "\n")
	}
	return b.String()
}

func pintConfig(o pintOpts) string {
	s := ""
	if o.Prom {
		s += "prometheus \"prom\" {\n  uri = \"" + deadURI + "\"\n  timeout = \"1s\"\n  rateLimit = 100000\n}\n"
	}
	s += "checks {\n  enabled = [\"alerts/comparison\", \"rule/report\", \"promql/series\"]\n}\n"
	s += "rule {\n  report {\n    comment = \"marker\"\n    severity = \"bug\"\n  }\n}\n"
	return s
}

type pintEntry struct {
	File int      `json:"file"`
	Line int      `json:"line"` // first line of the rule, 0 for file-level entries
	List []string `json:"list"`
}

type pintRep struct {
	File int    `json:"file"`
	Line int    `json:"line"`
	Rep  string `json:"rep"`
	Sev  string `json:"sev"`
}

func pintFileNo(path string) int {
	if strings.HasSuffix(path, "f2.yml") {
		return 2
	}
	return 1
}

func init() {
	register("exec-pint", func(in []json.RawMessage, out *Out, args []string) error {
		if len(args) < 1 {
			return errors.New("usage: exec-pint -in cases -out trace <pint-binary>")
		}
		pint := args[0]
		root, err := os.MkdirTemp(shmDir(), "vh-pint-")
		if err != nil {
			return err
		}
		defer os.RemoveAll(root)
		results := make([][]map[string]any, len(in))
		errs := make([]error, len(in))
		workers := runtime.NumCPU()
		if workers > 16 {
			workers = 16
		}
		parallel(len(in), workers, func(ix int) {
			var c pintCase
			if err := json.Unmarshal(in[ix], &c); err != nil || len(c.Files) != 2 {
				errs[ix] = fmt.Errorf("case %d: bad record: %v", ix+1, err)
				return
			}
			for _, w := range c.Ws {
				r, err := pintRun(pint, root, ix, c, w, in[ix])
				if err != nil {
					errs[ix] = err
					return
				}
				results[ix] = append(results[ix], r)
			}
		})
		for _, e := range errs {
			if e != nil {
				return e
			}
		}
		for _, rs := range results {
			for _, r := range rs {
				out.Write(r)
			}
		}
		return nil
	})
}

func pintRun(pint, root string, ix int, c pintCase, w int, caseRaw json.RawMessage) (map[string]any, error) {
	{
		{
			dir := filepath.Join(root, "c"+strconv.Itoa(ix)+"w"+strconv.Itoa(w))
			os.MkdirAll(filepath.Join(dir, "rules"), 0o755)
			defer os.RemoveAll(dir)
			for f := 0; f < 2; f++ {
				if err := os.WriteFile(filepath.Join(dir, "rules", fmt.Sprintf("f%d.yml", f+1)), []byte(pintRender(c.Files[f])), 0o644); err != nil {
					return nil, err
				}
			}
			cfgPath, jsonPath := filepath.Join(dir, "c.hcl"), filepath.Join(dir, "o.json")
			os.WriteFile(cfgPath, []byte(pintConfig(c.Opts)), 0o644)
			a := []string{"-n", "-l", "debug", "--config", cfgPath, "-w", strconv.Itoa(w)}
			for _, d := range c.Opts.Disabled {
				a = append(a, "--disabled", d)
			}
			if c.Opts.Offline {
				a = append(a, "--offline")
			}
			a = append(a, "lint", "--min-severity", "info", "--json", jsonPath, "rules")
			cmd := exec.Command(pint, a...)
			cmd.Dir = dir
			var stderr bytes.Buffer
			cmd.Stderr, cmd.Stdout = &stderr, &stderr
			rc := 0
			if werr := cmd.Run(); werr != nil {
				var ee *exec.ExitError
				if !errors.As(werr, &ee) {
					return nil, werr
				}
				rc = ee.ExitCode()
			}
			raw, rerr := os.ReadFile(jsonPath)
			if rerr != nil {
				return nil, fmt.Errorf("case %d: no report (rc=%d): %s", ix+1, rc, tail(stderr.String(), 800))
			}
			var reps []pintJSON
			if err := json.Unmarshal(raw, &reps); err != nil {
				return nil, err
			}
			prs := []pintRep{}
			for _, r := range reps {
				l := 0
				if len(r.Lines) > 0 {
					l = r.Lines[0]
				}
				prs = append(prs, pintRep{File: pintFileNo(r.Path), Line: l, Rep: r.Reporter, Sev: r.Severity})
			}
			sort.Slice(prs, func(i, j int) bool {
				return fmt.Sprint(prs[i].File, prs[i].Line, prs[i].Rep) < fmt.Sprint(prs[j].File, prs[j].Line, prs[j].Rep)
			})
			// entries and dispatched checks, from pint's own debug log (the dispatching goroutine logs in entry order)
			ents := []pintEntry{}
			line := 0
			sc := bufio.NewScanner(&stderr)
			sc.Buffer(make([]byte, 1<<20), 1<<24)
			const pfx = `level=DEBUG msg="Configured checks for rule" enabled=`
			for sc.Scan() {
				t := sc.Text()
				if strings.HasPrefix(t, `level=DEBUG msg="Found `) {
					if i := strings.Index(t, " lines="); i >= 0 {
						f := strings.FieldsFunc(t[i+7:], func(r rune) bool { return r == '-' || r == ' ' })
						line, _ = strconv.Atoi(f[0])
					}
				}
				if !strings.HasPrefix(t, pfx) {
					continue
				}
				dec := json.NewDecoder(strings.NewReader(t[len(pfx):]))
				var list []string
				if derr := dec.Decode(&list); derr != nil {
					return nil, fmt.Errorf("cannot parse %q", t)
				}
				if list == nil {
					list = []string{}
				}
				rest := t[len(pfx)+int(dec.InputOffset()):]
				path := ""
				if i := strings.Index(rest, " path="); i >= 0 {
					path = strings.Fields(rest[i+6:])[0]
				}
				ents = append(ents, pintEntry{File: pintFileNo(path), Line: line, List: list})
				line = 0
			}
			var m map[string]json.RawMessage
			json.Unmarshal(caseRaw, &m)
			return map[string]any{"ev": "Run", "id": ix + 1, "body": m["body"], "two": m["two"], "opts": m["opts"], "w": w,
				"entries": ents, "reports": prs, "exit": rc}, nil
		}
	}
}
