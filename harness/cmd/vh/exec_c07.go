package main

// exec-c07: EXEC for DispatchC07 (C07 - control comments suppress exactly the targeted check on the targeted rules).
//
//   exec-c07-probe  in: scenarios {cfg}            out: Base records (reports of the unmodified rule file)
//   exec-c07        in: cases {cfg, rule, text, place, ...}
//                   out: per scenario one Base record, then one Run record per case: the rule file with the one
//                        comment of the case inserted, linted by the real in-process pipeline (real parser, real
//                        discovery, real GetChecksForEntry, real checks against Prometheus servers nobody listens on).
//   A report is projected to  e (rule number in the file, 0 = not a rule), c (RuleChecker.String()), r (reporter),
//   k (hash of summary, details, severity, diagnostic texts and columns), ln (every line number it refers to).
// The last argument (optional) is the pint binary: every N-th case is also run through `pint lint --json`
// (BinBase / BinRun records with the coarser projection the JSON report allows).

import (
	"encoding/json"
	"errors"
	"fmt"
	"os"
	"os/exec"
	"path/filepath"
	"regexp"
	"runtime"
	"sort"
	"strconv"
	"strings"

	"github.com/cloudflare/pint/verifharness/pipe"
)

// The rule file; line numbers are mirrored by FileRules in spec/DispatchC07.tla.
const c07Rules = `groups:
- name: g
  rules:
  - record: foo:sum
    expr: sum(rate(http_requests_total{job=~"api"}[2h])) without(job)
    labels:
      kind: bad1
  - alert: Down
    expr: up == 0
    for: 1m
    keep_firing_for: 10m
    labels:
      kind: bad2
    annotations:
      link: http://example.com/runbook
      desc: "{{ $labels.nope }}"
  - alert: Always
    expr: absent(foo{job="x"})
    for: 0m
    annotations:
      summary: "{{ $externalLabels.cluster }}"
  - alert: Cmp
    expr: sum(foo) by(job)
  - record: broken
    expr: sum(
  - alert: Vec
    expr: (foo / on(instance) group_left sum(bar) without(job)) > 0
  - alert: Imp
    expr: foo{job="a"} * on(instance) group_left(cluster) bar{job="b"} > vector(0)
  - alert: Frag
    expr: topk(10, mymetric > 0)
    annotations:
      summary: "{{ $labels.instance }} on {{ $value | humanize"
  - alert: Tmpl
    expr: sum(foo) by(job) > 0
    annotations:
      summary: "{{ $labels.instance }}"
  - record: dup:one
    expr: sum(dupmetric) by(job)
  - record: dup:one
    expr: sum(dupmetric) by(job)
`

type c07Place struct {
	At   string `json:"at"`
	Line int    `json:"line"`
}

type c07Case struct {
	Cfg       dCfg     `json:"cfg"`
	Eol       string   `json:"eol"` // lf | crlf
	Rule      int      `json:"rule"`
	Text      string   `json:"text"`
	Place     c07Place `json:"place"`     // in the numbering of the committed file
	Prior     string   `json:"prior"`     // none | expired
	PriorText string   `json:"priortext"` // comment already in the file in front of the new one
	PPlace    c07Place `json:"pplace"`    // where it sits
	EPlace    c07Place `json:"eplace"`    // where the new comment goes in the file that holds the prior comment
}

func c07Eol(content, eol string) string {
	if eol == "crlf" {
		return strings.ReplaceAll(content, "\n", "\r\n")
	}
	return content
}

type c07Rep struct {
	E  int    `json:"e"`
	C  string `json:"c"`
	R  string `json:"r"`
	K  string `json:"k"`
	Ln []int  `json:"ln"`
	D  string `json:"d,omitempty"` // C07_DEBUG=1: the hashed material in clear
}

var c07FileLine = regexp.MustCompile(`(\.ya?ml):\d+`)

// c07Insert writes the comment into the file text.
func c07Insert(text string, p c07Place, comment string) (string, error) {
	lines := strings.Split(strings.TrimSuffix(text, "\n"), "\n")
	indentOf := func(l string) string { return l[:len(l)-len(strings.TrimLeft(l, " "))] }
	switch p.At {
	case "trail":
		if p.Line < 1 || p.Line > len(lines) {
			return "", fmt.Errorf("line %d out of range", p.Line)
		}
		lines[p.Line-1] += " " + comment
	case "above0":
		// F11: at column 0, directly above the (indented) list item
		if p.Line < 1 || p.Line > len(lines) {
			return "", fmt.Errorf("line %d out of range", p.Line)
		}
		lines = append(lines[:p.Line-1], append([]string{comment}, lines[p.Line-1:]...)...)
	case "above", "between":
		if p.Line < 1 || p.Line > len(lines) {
			return "", fmt.Errorf("line %d out of range", p.Line)
		}
		// same indentation as the text it precedes ("- alert" for above, the field key for between)
		lines = append(lines[:p.Line-1], append([]string{indentOf(lines[p.Line-1]) + comment}, lines[p.Line-1:]...)...)
	case "top":
		lines = append([]string{comment}, lines...)
	case "bottom":
		lines = append(lines, comment)
	default:
		return "", fmt.Errorf("unknown placement %q", p.At)
	}
	return strings.Join(lines, "\n") + "\n", nil
}

// c07Lint runs the real pipeline on the file and projects its reports.
// owners of the rules of the last c07Lint call of this goroutine are returned through c07LintOwners
func c07LintOwners(dir, cfgText, content string) (reps []c07Rep, rules [][2]int, checks [][]string, proj []string, owners []string, err error) {
	res := pipe.Lint(dir, map[string][]byte{"rules/r.yml": []byte(content)}, []string{"rules/r.yml"},
		pipe.Opts{Strict: true, Config: cfgText, Command: "lint"})
	reps, rules, checks, proj, err = c07Project(dir, res)
	for _, e := range res.Entries {
		if e.Kind == "alerting" || e.Kind == "recording" {
			owners = append(owners, e.Owner)
		}
	}
	return
}

func c07Lint(dir, cfgText, content string) (reps []c07Rep, rules [][2]int, checks [][]string, proj []string, err error) {
	reps, rules, checks, proj, _, err = c07LintOwners(dir, cfgText, content)
	return
}

func c07Project(dir string, res pipe.Result) (reps []c07Rep, rules [][2]int, checks [][]string, proj []string, err error) {
	if res.Panic != "" || res.FindErr != "" || res.CfgErr != "" {
		return nil, nil, nil, nil, fmt.Errorf("pipeline failed: panic=%q find=%q cfg=%q", tail(res.Panic, 600), res.FindErr, res.CfgErr)
	}
	proj = c07Proj(res)
	ruleNo := make([]int, len(res.Entries)) // entry -> rule number (1-based) or 0
	n := 0
	for i, e := range res.Entries {
		if e.Kind == "alerting" || e.Kind == "recording" {
			n++
			ruleNo[i] = n
			rules = append(rules, [2]int{e.First, e.Last})
			checks = append(checks, e.Checks)
		}
	}
	// texts may quote other rules as <file>:<line>: the scratch directory and the line number are masked
	norm := func(t string) string { return c07FileLine.ReplaceAllString(strings.ReplaceAll(t, dir+"/", ""), "$1:L") }
	for _, r := range res.Reports {
		parts := []any{r.Summary, norm(r.Details), r.Severity, r.Anchor}
		ln := []int{r.First, r.Last}
		for _, d := range r.Diags {
			parts = append(parts, norm(d.Message))
			// The column range of a PromQL syntax error comes from the Prometheus parser, whose pooled parser objects
			// carry position state over from whatever was parsed before in this process (observed: LastColumn 16 or 0 for
			// `sum(`): it is not a function of the file, so it is not part of the projection.
			if r.Reporter != "promql/syntax" {
				parts = append(parts, d.First, d.Last)
			}
			for _, p := range d.Pos {
				parts = append(parts, p.First, p.Last)
				ln = append(ln, p.Line)
			}
		}
		rep := c07Rep{E: ruleNo[r.Entry], C: r.Check, R: r.Reporter, K: shortHash(parts...), Ln: ln}
		if os.Getenv("C07_DEBUG") != "" {
			rep.D = fmt.Sprint(parts...)
		}
		reps = append(reps, rep)
	}
	sort.Slice(reps, func(i, j int) bool {
		a, b := reps[i], reps[j]
		if a.E != b.E {
			return a.E < b.E
		}
		if a.C != b.C {
			return a.C < b.C
		}
		if a.K != b.K {
			return a.K < b.K
		}
		return fmt.Sprint(a.Ln) < fmt.Sprint(b.Ln)
	})
	if reps == nil {
		reps = []c07Rep{}
	}
	return reps, rules, checks, proj, nil
}

// c07Binary lints the same content with the real binary and projects the --json report the same way
// c07Lint projects the in-process reports into `proj` (binding of the in-process pipeline to the shipped binary).
func c07Binary(pint, root, cfgText, content string) ([]string, error) {
	dir, err := os.MkdirTemp(root, "bin-")
	if err != nil {
		return nil, err
	}
	defer os.RemoveAll(dir)
	if err := os.MkdirAll(filepath.Join(dir, "rules"), 0o755); err != nil {
		return nil, err
	}
	if err := os.WriteFile(filepath.Join(dir, "rules", "r.yml"), []byte(content), 0o644); err != nil {
		return nil, err
	}
	cfgPath, jsonPath := filepath.Join(dir, "c.hcl"), filepath.Join(dir, "o.json")
	if err := os.WriteFile(cfgPath, []byte(cfgText), 0o644); err != nil {
		return nil, err
	}
	cmd := exec.Command(pint, "-n", "-l", "error", "--config", cfgPath, "lint", "--min-severity", "info", "--json", jsonPath, "rules")
	cmd.Dir = dir
	outb, _ := cmd.CombinedOutput()
	raw, err := os.ReadFile(jsonPath)
	if err != nil {
		return nil, fmt.Errorf("binary wrote no report: %s", tail(string(outb), 800))
	}
	var reps []pintJSON
	if err := json.Unmarshal(raw, &reps); err != nil {
		return nil, err
	}
	set := map[string]bool{}
	for _, r := range reps {
		f, l := 0, 0
		if len(r.Lines) > 0 {
			f, l = r.Lines[0], r.Lines[len(r.Lines)-1]
		}
		set[shortHash(r.Path, r.Reporter, r.Problem, r.Details, r.Severity, f, l)] = true
	}
	return sortedKeys(set), nil
}

func sortedKeys(m map[string]bool) []string {
	out := make([]string, 0, len(m))
	for k := range m {
		out = append(out, k)
	}
	sort.Strings(out)
	return out
}

// c07Proj is the same projection computed from the in-process reports.
func c07Proj(res pipe.Result) []string {
	set := map[string]bool{}
	for _, r := range res.Reports {
		set[shortHash(r.Path, r.Reporter, r.Summary, r.Details, r.Severity, r.First, r.Last)] = true
	}
	return sortedKeys(set)
}

func c07Scenarios(in []json.RawMessage) (keys []string, cfgs map[string]dCfg, raws map[string]json.RawMessage, byScen map[string][]int, cases []c07Case, err error) {
	cfgs, raws, byScen = map[string]dCfg{}, map[string]json.RawMessage{}, map[string][]int{}
	// scenario = (configuration, line ending of the rule file)
	cases = make([]c07Case, len(in))
	for i, raw := range in {
		if err = json.Unmarshal(raw, &cases[i]); err != nil {
			return
		}
		rc := mustField(raw, "cfg")
		k := cases[i].Eol + "\x00" + string(rc)
		if _, ok := cfgs[k]; !ok {
			keys = append(keys, k)
			cfgs[k] = cases[i].Cfg
			raws[k] = rc
		}
		byScen[k] = append(byScen[k], i)
	}
	return
}

func init() {
	register("exec-c07-probe", func(in []json.RawMessage, out *Out, args []string) error {
		keys, cfgs, raws, _, _, err := c07Scenarios(in)
		if err != nil {
			return err
		}
		root, err := os.MkdirTemp(shmDir(), "vh-c07p-")
		if err != nil {
			return err
		}
		defer os.RemoveAll(root)
		for si, k := range keys {
			dir := filepath.Join(root, "s"+strconv.Itoa(si))
			os.MkdirAll(dir, 0o755)
			eol := strings.SplitN(k, "\x00", 2)[0]
			reps, rules, checks, _, err := c07Lint(dir, renderCfg(cfgs[k]), c07Eol(c07Rules, eol))
			if err != nil {
				return fmt.Errorf("scenario %d: %v", si+1, err)
			}
			out.Write(map[string]any{"ev": "Base", "scen": si + 1, "cfg": raws[k], "eol": eol, "reports": reps, "rules": rules, "checks": checks})
		}
		return nil
	})

	register("exec-c07", func(in []json.RawMessage, out *Out, args []string) error {
		keys, cfgs, raws, byScen, cases, err := c07Scenarios(in)
		if err != nil {
			return err
		}
		pint, every := "", 0
		if len(args) > 0 {
			pint = args[0]
			every = 20
		}
		if len(args) > 1 {
			every, _ = strconv.Atoi(args[1])
		}
		if len(cases) == 0 {
			return errors.New("no cases")
		}
		root, err := os.MkdirTemp(shmDir(), "vh-c07-")
		if err != nil {
			return err
		}
		defer os.RemoveAll(root)
		workers := runtime.NumCPU()
		if workers > 16 {
			workers = 16
		}
		for si, k := range keys {
			cfgText := renderCfg(cfgs[k])
			bdir := filepath.Join(root, fmt.Sprintf("s%d-base", si))
			os.MkdirAll(bdir, 0o755)
			eol := strings.SplitN(k, "\x00", 2)[0]
			reps, rules, checks, _, err := c07Lint(bdir, cfgText, c07Eol(c07Rules, eol))
			if err != nil {
				return fmt.Errorf("scenario %d base: %v", si+1, err)
			}
			out.Write(map[string]any{"ev": "Base", "scen": si + 1, "cfg": raws[k], "eol": eol, "reports": reps, "rules": rules, "checks": checks})
			idx := byScen[k]
			results := make([]map[string]any, len(idx))
			errs := make([]error, len(idx))
			parallel(len(idx), workers, func(j int) {
				ci := idx[j]
				c := cases[ci]
				dir, err := os.MkdirTemp(root, "c-")
				if err != nil {
					errs[j] = err
					return
				}
				defer os.RemoveAll(dir)
				content := c07Rules
				basereps := []c07Rep{}
				if c.Prior != "none" && c.Prior != "" {
					// the file already holds a comment: its own base run
					if content, err = c07Insert(content, c.PPlace, c.PriorText); err != nil {
						errs[j] = fmt.Errorf("case %d: %v", ci+1, err)
						return
					}
					pdir := filepath.Join(dir, "prior")
					os.MkdirAll(pdir, 0o755)
					if basereps, _, _, _, err = c07Lint(pdir, cfgText, c07Eol(content, c.Eol)); err != nil {
						errs[j] = fmt.Errorf("case %d (prior %s): %v", ci+1, c.PriorText, err)
						return
					}
				}
				if content, err = c07Insert(content, c.EPlace, c.Text); err != nil {
					errs[j] = fmt.Errorf("case %d: %v", ci+1, err)
					return
				}
				content = c07Eol(content, c.Eol)
				reps, rules, checks, proj, owners, err := c07LintOwners(dir, cfgText, content)
				if err != nil {
					errs[j] = fmt.Errorf("case %d (%s at %v): %v", ci+1, c.Text, c.Place, err)
					return
				}
				binproj := []string{}
				sampled := pint != "" && every > 0 && ci%every == 0
				if sampled {
					if binproj, err = c07Binary(pint, root, cfgText, content); err != nil {
						errs[j] = fmt.Errorf("case %d binary: %v", ci+1, err)
						return
					}
				} else {
					proj = []string{}
				}
				// dispatched check lists of the targeted rule (rule 1 for file comments) and of one other rule
				t := c.Rule
				if t < 1 || t > len(checks) {
					t = 1
				}
				o := 1
				if t == 1 {
					o = 2
				}
				crules, cl := []int{t, o}, [][]string{checks[t-1], checks[o-1]}
				if c.Place.At == "above0" && t > 1 {
					crules, cl = append(crules, t-1), append(cl, checks[t-2])
				}
				var m map[string]json.RawMessage
				json.Unmarshal(in[ci], &m)
				results[j] = map[string]any{"ev": "Run", "id": ci + 1, "scen": si + 1, "rule": c.Rule, "cmt": m["cmt"], "place": m["place"],
					"prior": c.Prior, "pcmt": m["pcmt"], "owners": owners, "pplace": m["pplace"], "eplace": m["eplace"], "basereports": basereps, "eol": c.Eol, "text": c.Text, "reports": reps, "rules": rules, "crules": crules, "checks": cl, "bin": sampled, "proj": proj, "binproj": binproj}
			})
			for _, e := range errs {
				if e != nil {
					return e
				}
			}
			for _, r := range results {
				out.Write(r)
			}
		}
		return nil
	})
}
