package main

// EXEC for the Scan family (C11).
//   exec-c11-shapes : abstract input -> rule files + config -> real in-process pipeline -> per-job real
//                     reports; records the job shape (reports per non-empty job) of every input.
//   exec-c11-replay : input + arrival orders (from TLC) -> every order is fed report by report into the real
//                     Summary.Report, then SortReports, Dedup and the real console (3 settings) and JSON
//                     reporters; records the projected reports, the observed final order and the rendered
//                     outputs (hashed, scratch directory removed from the text).
//   exec-c11-bin    : the real race-instrumented binary, --workers x GOMAXPROCS x jitter seeds.
// Strings are projected to their rank among the strings of the same field of the same input (order
// preserving), whole reports to a content class id; nothing is judged here.

import (
	"bytes"
	"crypto/sha256"
	"encoding/hex"
	"encoding/json"
	"fmt"
	"os"
	"os/exec"
	"path/filepath"
	"regexp"
	"runtime"
	"sort"
	"strconv"
	"strings"
	"sync"
	"time"

	"github.com/cloudflare/pint/internal/checks"
	"github.com/cloudflare/pint/internal/diags"
	"github.com/cloudflare/pint/internal/reporter"
	"github.com/cloudflare/pint/verifharness/pipe"
)

type c11Input struct {
	Cfg   string   `json:"cfg"`
	Rules []string `json:"rules"`
	Two   bool     `json:"two"`
	Grp   bool     `json:"grp"` // the group carries labels (team, tier) that rules inherit or override
	Sym   bool     `json:"sym"` // the second file is a symlink to the first one (GlobFinder reports link and target)
	// replay only: arrival orders, each a list of [job, k] (job = index among the non-empty jobs, 1-based)
	Orders [][][2]int `json:"orders,omitempty"`
}

func c11Config(v string) string {
	sev := func(same, mixed string) string {
		if v == "mixed" {
			return mixed
		}
		return same
	}
	if v == "none" {
		return ""
	}
	if v == "prom2" {
		// two Prometheus servers nobody listens on: every online check becomes two jobs per rule (one per server),
		// each reporting that it could not run - same reporter, same lines, texts differing in the server name
		return c11Config("same") + `prometheus "one" {
  uri      = "http://127.0.0.1:1"
  timeout  = "2s"
  required = true
}
prometheus "two" {
  uri      = "http://127.0.0.1:2"
  timeout  = "2s"
  required = true
}
`
	}
	return fmt.Sprintf(`rule {
  label "team" {
    required = true
    severity = "%s"
  }
  label "tier" {
    required = true
    severity = "warning"
  }
  annotation "summary" {
    required = true
    severity = "%s"
  }
  annotation "runbook" {
    required = true
    severity = "warning"
  }
  aggregate ".+" {
    keep     = ["job"]
    severity = "%s"
  }
  aggregate ".+" {
    keep     = ["cluster"]
    severity = "warning"
  }
}
rule {
  match {
    kind = "alerting"
  }
  label "team" {
    required = true
    value    = "infra"
    severity = "%s"
  }
}
check "promql/regexp" {
  smelly = false
}
`, sev("warning", "bug"), sev("warning", "info"), sev("warning", "bug"), "warning")
	// same: both `team` blocks warn -> two jobs report the identical problem (merged by Summary.Report);
	// mixed: the first block reports a bug, the second a warning -> the same problem at two severities
}

func c11Rule(kind string, i int) []string {
	full := []string{"    labels:", "      team: infra", "      tier: b", "    annotations:", "      summary: s", "      runbook: r"}
	n := strconv.Itoa(i)
	switch kind {
	case "clean":
		return append([]string{"  - alert: A" + n, `    expr: up{job="x"} == 0`}, full...)
	case "bare":
		return []string{"  - alert: A" + n, `    expr: up{job="x"} == 0`}
	case "ovr": // overrides a label the group may set
		return []string{"  - alert: A" + n, `    expr: up{job="x"} == 0`, "    labels:", "      team: db" + n, "    annotations:", "      summary: s", "      runbook: r"}
	case "tmpl":
		return []string{"  - alert: A" + n, `    expr: sum(up{job="x"}) by(job) > 0`, "    labels:", "      team: infra", "      tier: b",
			"    annotations:", "      summary: '{{ $labels.instance }}'", "      runbook: '{{ $labels.instance }}'"}
	case "regexp":
		return append([]string{"  - alert: A" + n, `    expr: up{job=~"^foo$", instance=~"bar"} == 0`}, full...)
	case "smelly": // a selector promql/regexp calls smelly; the configuration switches that off (check "promql/regexp" { smelly = false })
		return append([]string{"  - alert: A" + n, `    expr: up{job=~"service-.+-prod", instance=~".+-db-.+"} == 0`}, full...)
	case "both":
		return []string{"  - alert: A" + n, `    expr: up{job=~"^foo$", instance=~"bar"} == 0`}
	case "agg":
		return []string{"  - record: r" + n, `    expr: sum(rate(foo_total[5m])) without(job, cluster)`}
	case "broken":
		return []string{"  - alert: A" + n, "    labels:", "      team: infra"}
	}
	return nil
}

func c11Files(in c11Input) (map[string][]byte, []string) {
	l := []string{"groups:", "- name: g"}
	if in.Grp {
		l = append(l, "  labels:", "    team: infra", "    tier: b")
	}
	l = append(l, "  rules:")
	for i, k := range in.Rules {
		l = append(l, c11Rule(k, i+1)...)
	}
	txt := []byte(strings.Join(l, "\n") + "\n")
	files := map[string][]byte{"rules1.yml": txt}
	order := []string{"rules1.yml"}
	if in.Two && !in.Sym {
		files["rules2.yml"] = txt
	}
	if in.Two || in.Sym {
		order = append(order, "rules2.yml")
	}
	return files, order
}

// the jobs of the real pipeline executed one after the other in the given order (nil = queue order);
// returns the reports of every job indexed by its position in the queue. Files are parsed afresh.
func c11Execute(dir string, in c11Input, perm func(n int) []int) ([][]reporter.Report, error) {
	files, order := c11Files(in)
	if err := c11Write(dir, in, files); err != nil {
		return nil, err
	}
	p, err := pipe.Prepare(dir, order, pipe.Opts{Strict: true, Offline: in.Cfg != "prom2", Command: "lint", Config: c11Config(in.Cfg)})
	if err != nil {
		return nil, err
	}
	defer p.Close()
	out := make([][]reporter.Report, len(p.Jobs))
	idx := make([]int, len(p.Jobs))
	for i := range idx {
		idx[i] = i
	}
	if perm != nil {
		idx = perm(len(p.Jobs))
	}
	var perr error
	func() {
		defer func() {
			if r := recover(); r != nil {
				perr = fmt.Errorf("panic in a check: %v", r)
			}
		}()
		for _, i := range idx {
			out[i] = p.Run(p.Jobs[i])
		}
	}()
	return out, perr
}

// writes the files of an input; with Sym the second file is a symbolic link to the first
func c11Write(dir string, in c11Input, files map[string][]byte) error {
	_ = os.Remove(filepath.Join(dir, "rules2.yml"))
	for n, b := range files {
		if err := os.WriteFile(filepath.Join(dir, n), b, 0o644); err != nil {
			return err
		}
	}
	if in.Sym {
		return os.Symlink("rules1.yml", filepath.Join(dir, "rules2.yml"))
	}
	return nil
}

// non-empty jobs in queue order, each with its reports in emission order
func c11Jobs(dir string, in c11Input) ([][]reporter.Report, error) {
	all, err := c11Execute(dir, in, nil)
	if err != nil {
		return nil, err
	}
	var jobs [][]reporter.Report
	for _, j := range all {
		if len(j) > 0 {
			jobs = append(jobs, j)
		}
	}
	return jobs, nil
}

// what every job reported, as text (scratch directory removed)
func c11JobsText(all [][]reporter.Report, dir string) string {
	var b strings.Builder
	for i, j := range all {
		for _, r := range j {
			fmt.Fprintf(&b, "%d|%s|%s|%d|%v|%s|%s|%s|%v\n", i, strings.TrimPrefix(r.Path.Name, dir), r.Rule.Name(), r.Problem.Severity,
				r.Problem.Lines, r.Problem.Reporter, r.Problem.Summary, r.Problem.Details, r.Problem.Diagnostics)
		}
	}
	return b.String()
}

func c11CopyReport(r reporter.Report) reporter.Report {
	c := r
	c.Problem.Diagnostics = make([]diags.Diagnostic, len(r.Problem.Diagnostics))
	for i, d := range r.Problem.Diagnostics {
		c.Problem.Diagnostics[i] = d
		c.Problem.Diagnostics[i].Pos = append(diags.PositionRanges{}, d.Pos...)
	}
	c.Duplicates = nil
	c.IsDuplicate = false
	return c
}

// ---- projection
type c11Diag struct {
	Fc  int `json:"fc"`
	Lc  int `json:"lc"`
	Msg int `json:"msg"`
	Pos int `json:"pos"`
}
type c11Rep struct {
	UID    int       `json:"uid"`
	Job    int       `json:"job"`
	Cid    int       `json:"cid"`
	Path   int       `json:"path"`
	Sym    int       `json:"sym"`
	Owner  int       `json:"owner"`
	First  int       `json:"first"`
	Last   int       `json:"last"`
	Rlast  int       `json:"rlast"`
	Rule   int       `json:"rule"`
	Name   int       `json:"name"`
	Sev    int       `json:"sev"`
	Rep    int       `json:"rep"`
	Sum    int       `json:"sum"`
	Det    int       `json:"det"`
	Anchor int       `json:"anchor"`
	Diags  []c11Diag `json:"diags"`
}

type c11Ranker struct {
	vals map[string]map[string]bool
	rank map[string]map[string]int
}

func (rk *c11Ranker) add(field, s string) {
	if rk.vals[field] == nil {
		rk.vals[field] = map[string]bool{}
	}
	rk.vals[field][s] = true
}
func (rk *c11Ranker) done() {
	rk.rank = map[string]map[string]int{}
	for f, m := range rk.vals {
		var l []string
		for s := range m {
			l = append(l, s)
		}
		sort.Strings(l) // bytewise, like cmp.Compare on Go strings
		rk.rank[f] = map[string]int{}
		for i, s := range l {
			rk.rank[f][s] = i + 1
		}
	}
}
func (rk *c11Ranker) of(field, s string) int { return rk.rank[field][s] }
func (rk *c11Ranker) names(field string) []string {
	out := make([]string, len(rk.rank[field]))
	for s, i := range rk.rank[field] {
		out[i-1] = s
	}
	return out
}

func c11PosStr(d diags.Diagnostic) string { return fmt.Sprintf("%v", d.Pos) }

func c11Strings(rk *c11Ranker, r reporter.Report, dir string) {
	rk.add("path", strings.TrimPrefix(r.Path.Name, dir))
	rk.add("sym", strings.TrimPrefix(r.Path.SymlinkTarget, dir))
	rk.add("owner", r.Owner)
	rk.add("name", r.Rule.Name())
	rk.add("rep", r.Problem.Reporter)
	rk.add("sum", r.Problem.Summary)
	rk.add("det", r.Problem.Details)
	for _, d := range r.Problem.Diagnostics {
		rk.add("msg", d.Message)
		rk.add("pos", c11PosStr(d))
	}
}

type c11Projector struct {
	rk    *c11Ranker
	dir   string
	rules []reporter.Report // representatives of Rule.IsSame classes
	cids  map[string]int
}

func (p *c11Projector) ruleClass(r reporter.Report) int {
	for i, q := range p.rules {
		if q.Rule.IsSame(r.Rule) && r.Rule.IsSame(q.Rule) {
			return i + 1
		}
	}
	p.rules = append(p.rules, r)
	return len(p.rules)
}

func (p *c11Projector) project(r reporter.Report, uid, job int) c11Rep {
	rk := p.rk
	out := c11Rep{UID: uid, Job: job,
		Path: rk.of("path", strings.TrimPrefix(r.Path.Name, p.dir)), Sym: rk.of("sym", strings.TrimPrefix(r.Path.SymlinkTarget, p.dir)),
		Owner: rk.of("owner", r.Owner), First: r.Problem.Lines.First, Last: r.Problem.Lines.Last, Rlast: r.Rule.Lines.Last,
		Rule: p.ruleClass(r), Name: rk.of("name", r.Rule.Name()), Sev: int(r.Problem.Severity), Rep: rk.of("rep", r.Problem.Reporter),
		Sum: rk.of("sum", r.Problem.Summary), Det: rk.of("det", r.Problem.Details), Anchor: int(r.Problem.Anchor), Diags: []c11Diag{}}
	for _, d := range r.Problem.Diagnostics {
		out.Diags = append(out.Diags, c11Diag{d.FirstColumn, d.LastColumn, rk.of("msg", d.Message), rk.of("pos", c11PosStr(d))})
	}
	// content class: everything but uid/job, diagnostics as a multiset (their order is normalised by SortReports)
	ds := append([]c11Diag{}, out.Diags...)
	sort.Slice(ds, func(a, b int) bool { return fmt.Sprint(ds[a]) < fmt.Sprint(ds[b]) })
	key := fmt.Sprint(out.Path, out.Sym, out.Owner, out.First, out.Last, out.Rlast, out.Rule, out.Name, out.Sev, out.Rep, out.Sum, out.Det, out.Anchor, ds)
	if _, ok := p.cids[key]; !ok {
		p.cids[key] = len(p.cids) + 1
	}
	out.Cid = p.cids[key]
	return out
}

func c11Hash(s string) string {
	h := sha256.Sum256([]byte(s))
	return hex.EncodeToString(h[:6])
}

// does the tree's cmpDiagnostics look past the first diagnostic? (observed through the real SortReports)
func c11ProbeAllDiags() bool {
	mk := func(second string) reporter.Report {
		return reporter.Report{Problem: checks.Problem{Reporter: "r", Summary: "s", Diagnostics: []diags.Diagnostic{
			{Message: "a", FirstColumn: 1, LastColumn: 2}, {Message: second, FirstColumn: 1, LastColumn: 2}}}}
	}
	s := reporter.NewSummary([]reporter.Report{mk("z"), mk("b")})
	s.SortReports()
	return s.Reports()[0].Problem.Diagnostics[1].Message == "b"
}

func c11Replay(id int, in c11Input, emit func(any)) error {
	dir, err := os.MkdirTemp(shmDir(), "c11-")
	if err != nil {
		return err
	}
	defer os.RemoveAll(dir)
	jobs, err := c11Jobs(dir, in)
	if err != nil {
		return err
	}
	rk := &c11Ranker{vals: map[string]map[string]bool{}}
	for _, j := range jobs {
		for _, r := range j {
			c11Strings(rk, r, dir)
		}
	}
	rk.done()
	pj := &c11Projector{rk: rk, dir: dir, cids: map[string]int{}}
	reps := []c11Rep{}
	uidOf := map[[2]int]int{}
	shape := []int{}
	for ji, j := range jobs {
		shape = append(shape, len(j))
		for k, r := range j {
			uid := len(reps) + 1
			uidOf[[2]int{ji + 1, k + 1}] = uid
			reps = append(reps, pj.project(r, uid, ji+1))
		}
	}
	rules := append([]string{}, in.Rules...)
	emit(map[string]any{"ev": "File", "id": id, "cfg": in.Cfg, "rules": rules, "two": in.Two, "grp": in.Grp, "sym": in.Sym, "shape": shape, "n": len(reps),
		"reports": reps, "reps": rk.names("rep"), "alldiags": c11ProbeAllDiags()})
	// the checks themselves executed in other orders: every job must report what it reports in queue order
	rev := func(n int) []int {
		p := make([]int, n)
		for i := range p {
			p[i] = n - 1 - i
		}
		return p
	}
	shuf := func(seed int) func(n int) []int {
		return func(n int) []int {
			p := make([]int, n)
			for i := range p {
				p[i] = i
			}
			x := uint64(seed)*2654435761 + 12345
			for i := n - 1; i > 0; i-- {
				x = x*6364136223846793005 + 1442695040888963407
				j := int((x >> 33) % uint64(i+1))
				p[i], p[j] = p[j], p[i]
			}
			return p
		}
	}
	for _, ex := range []struct {
		kind string
		perm func(int) []int
	}{{"queue", nil}, {"reverse", rev}, {"shuffle1", shuf(id)}, {"shuffle2", shuf(id + 7919)}} {
		all, err := c11Execute(dir, in, ex.perm)
		txt := ""
		if err != nil {
			txt = "ERROR " + err.Error()
		} else {
			txt = c11JobsText(all, dir)
		}
		emit(map[string]any{"ev": "Exec", "id": id, "kind": ex.kind, "base": ex.kind == "queue", "h": c11Hash(txt)})
	}
	canon := [][2]int{}
	for ji, j := range jobs {
		for k := range j {
			canon = append(canon, [2]int{ji + 1, k + 1})
		}
	}
	orders := append([][][2]int{canon}, in.Orders...)
	bindN := 2
	if os.Getenv("VERIF_TIER") == "thorough" {
		bindN = 8
	}
	for oi, ord := range orders {
		if len(ord) != len(reps) {
			return fmt.Errorf("input %d order %d has %d elements for %d reports", id, oi, len(ord), len(reps))
		}
		s := reporter.NewSummary(nil)
		arr := []int{}
		for _, jk := range ord {
			uid, ok := uidOf[jk]
			if !ok {
				return fmt.Errorf("input %d order %d names unknown report %v", id, oi, jk)
			}
			arr = append(arr, uid)
			s.Report(c11CopyReport(jobs[jk[0]-1][jk[1]-1])) // the collector: for result := range results { summary.Report(result) }
		}
		s.SortReports()
		s.Dedup()
		final, dup, ndups := []int{}, []bool{}, []int{}
		for _, r := range s.Reports() {
			final = append(final, pj.project(r, 0, 0).Cid)
			dup = append(dup, r.IsDuplicate)
			ndups = append(ndups, len(r.Duplicates))
		}
		render := func(minSev checks.Severity, showDup bool) string {
			var b bytes.Buffer
			if err := reporter.NewConsoleReporter(&b, minSev, true, showDup).Submit(s); err != nil {
				return "ERROR " + err.Error()
			}
			return strings.ReplaceAll(b.String(), dir, "")
		}
		var jb bytes.Buffer
		_ = reporter.NewJSONReporter(&jb).Submit(s)
		sevs := map[int]bool{}
		for _, r := range s.Reports() {
			sevs[int(r.Problem.Severity)] = true
		}
		sv := []int{}
		for k := range sevs {
			sv = append(sv, k)
		}
		sort.Ints(sv)
		outs := []string{render(checks.Information, false), render(checks.Information, true), render(checks.Bug, false),
			strings.ReplaceAll(jb.String(), dir, ""), fmt.Sprint(sv)}
		hs := []string{}
		for _, o := range outs {
			hs = append(hs, c11Hash(o))
		}
		rec := map[string]any{"ev": "Order", "id": id, "oid": oi, "canon": oi == 0, "order": arr, "final": final, "dup": dup, "ndups": ndups, "h": hs, "text": "",
			"bind": oi <= bindN && (len(reps) <= 20 || oi <= 2)} // long inputs: the fold costs TLC O(n^2) // JUDGE re-computes the fold of the spec for the first orders of every input
		if oi == 0 {
			rec["text"] = outs[0]
		}
		emit(rec)
	}
	return nil
}

// ---- binary runs
var (
	c11TimeRe = regexp.MustCompile(`time=\S+ `)
	c11DurRe  = regexp.MustCompile(`duration=\S+`)
)

// mode: lint | lint-dups (--show-duplicates) | lint-minsev (--min-severity=bug) | ci (pint ci on a scratch git
// repository whose feature branch adds the files; checkRules is the same code, entries come from GitBranchFinder)
// c11RunBin runs pint once with a 2 min deadline; a run that overruns it (race-detector build on a busy machine, two
// unreachable servers) is repeated once with a 10 min deadline before it is called a hang.
func c11RunBin(bin, dir, mode string, online bool, workers, procs int, seed string, files []string) (stderr string, jsonOut string, code int, race bool, err error) {
	stderr, jsonOut, code, race, err = c11RunBinOnce(bin, dir, mode, online, workers, procs, seed, files, 120*time.Second)
	if err != nil && strings.Contains(err.Error(), "pint timed out") {
		stderr, jsonOut, code, race, err = c11RunBinOnce(bin, dir, mode, online, workers, procs, seed, files, 600*time.Second)
	}
	return stderr, jsonOut, code, race, err
}

func c11RunBinOnce(bin, dir, mode string, online bool, workers, procs int, seed string, files []string, deadline time.Duration) (stderr string, jsonOut string, code int, race bool, err error) {
	jpath := filepath.Join(dir, "out.json")
	_ = os.Remove(jpath)
	args := []string{"--no-color", "--workers", strconv.Itoa(workers)}
	if !online {
		args = append(args, "--offline")
	}
	switch mode {
	case "ci":
		args = append(args, "ci", "--base-branch", "main")
	case "lint-dups":
		args = append(append(args, "lint", "--show-duplicates", "--json", jpath), files...)
	case "lint-minsev":
		args = append(append(args, "lint", "--min-severity=bug", "--json", jpath), files...)
	default:
		args = append(append(args, "lint", "--json", jpath), files...)
	}
	cmd := exec.Command(bin, args...)
	cmd.Dir = dir
	cmd.Env = append(os.Environ(), "GOMAXPROCS="+strconv.Itoa(procs), "GORACE=halt_on_error=0 exitcode=0", "NO_COLOR=1")
	if seed != "" {
		cmd.Env = append(cmd.Env, "PINT_VERIF_JITTER="+seed)
	}
	var eb bytes.Buffer
	cmd.Stderr = &eb
	cmd.Stdout = &eb
	done := make(chan error, 1)
	if err := cmd.Start(); err != nil {
		return "", "", 0, false, err
	}
	go func() { done <- cmd.Wait() }()
	select {
	case werr := <-done:
		if ee, ok := werr.(*exec.ExitError); ok {
			code = ee.ExitCode()
		} else if werr != nil {
			return "", "", 0, false, werr
		}
	case <-time.After(deadline):
		_ = cmd.Process.Kill()
		return "", "", 0, false, fmt.Errorf("pint timed out after %s (workers=%d procs=%d seed=%s)", deadline, workers, procs, seed)
	}
	out := eb.String()
	race = strings.Contains(out, "WARNING: DATA RACE")
	out = c11TimeRe.ReplaceAllString(out, "")
	out = c11DurRe.ReplaceAllString(out, "duration=X")
	// log lines are written by whichever goroutine gets there first (failed queries of online checks are logged
	// by the workers): only the report itself and the final count are compared
	var kept []string
	for _, ln := range strings.Split(out, "\n") {
		if !strings.HasPrefix(ln, "level=") || strings.Contains(ln, `msg="Problems found"`) || strings.Contains(ln, "DATA RACE") {
			kept = append(kept, ln)
		}
	}
	out = strings.Join(kept, "\n")
	jb, _ := os.ReadFile(jpath)
	return out, string(jb), code, race, nil
}

func init() {
	run := func(name string, f func(id int, in c11Input, emit func(any)) error) {
		register(name, func(in []json.RawMessage, out *Out, args []string) error {
			results := make([][]any, len(in))
			var mu sync.Mutex
			var firstErr error
			parallel(len(in), runtime.NumCPU(), func(idx int) {
				var c c11Input
				if err := json.Unmarshal(in[idx], &c); err != nil {
					mu.Lock()
					firstErr = err
					mu.Unlock()
					return
				}
				var recs []any
				if err := f(idx+1, c, func(v any) { recs = append(recs, v) }); err != nil {
					mu.Lock()
					if firstErr == nil {
						firstErr = err
					}
					mu.Unlock()
					return
				}
				results[idx] = recs
			})
			if firstErr != nil {
				return firstErr
			}
			for _, rs := range results {
				for _, r := range rs {
					out.Write(r)
				}
			}
			return nil
		})
	}
	run("exec-c11-shapes", func(id int, in c11Input, emit func(any)) error {
		dir, err := os.MkdirTemp(shmDir(), "c11s-")
		if err != nil {
			return err
		}
		defer os.RemoveAll(dir)
		jobs, err := c11Jobs(dir, in)
		if err != nil {
			return err
		}
		shape := []int{}
		n := 0
		for _, j := range jobs {
			shape = append(shape, len(j))
			n += len(j)
		}
		emit(map[string]any{"ev": "Shape", "id": id, "shape": shape, "n": n})
		return nil
	})
	run("exec-c11-replay", c11Replay)

	// exec-c11-bin <pint-race-binary>: sequential over inputs (each run is itself concurrent)
	register("exec-c11-bin", func(in []json.RawMessage, out *Out, args []string) error {
		if len(args) < 1 {
			return fmt.Errorf("usage: exec-c11-bin <pint binary> [full]")
		}
		bin := args[0]
		type combo struct {
			w, p int
			seed string
		}
		results := make([][]any, len(in))
		var mu sync.Mutex
		var firstErr error
		parallel(len(in), 4, func(idx int) {
			var c struct {
				c11Input
				Combos [][3]int `json:"combos"` // workers, GOMAXPROCS, jitter seed (0 = none)
				Mode   string   `json:"mode"`
			}
			fail := func(err error) {
				mu.Lock()
				if firstErr == nil {
					firstErr = err
				}
				mu.Unlock()
			}
			if err := json.Unmarshal(in[idx], &c); err != nil {
				fail(err)
				return
			}
			dir, err := os.MkdirTemp(shmDir(), "c11b-")
			if err != nil {
				fail(err)
				return
			}
			defer os.RemoveAll(dir)
			files, order := c11Files(c.c11Input)
			if err := c11Write(dir, c.c11Input, files); err != nil {
				fail(err)
				return
			}
			hcl := c11Config(c.Cfg)
			if c.Mode == "" {
				c.Mode = "lint"
			}
			if c.Mode == "ci" {
				// main has only a readme; the feature branch adds the rule files and the configuration
				hcl += "\nci {\n  baseBranch = \"main\"\n}\n"
				git := func(args ...string) error {
					cmd := exec.Command("git", append([]string{"-c", "user.name=verif", "-c", "user.email=verif@example.com", "-c", "commit.gpgsign=false"}, args...)...)
					cmd.Dir = dir
					if out, err := cmd.CombinedOutput(); err != nil {
						return fmt.Errorf("git %v: %v: %s", args, err, out)
					}
					return nil
				}
				_ = os.WriteFile(filepath.Join(dir, "README"), []byte("rules\n"), 0o644)
				for _, a := range [][]string{{"init", "-q", "-b", "main"}, {"add", "README"}, {"commit", "-q", "-m", "init"}, {"checkout", "-q", "-b", "feature"}} {
					if err := git(a...); err != nil {
						fail(err)
						return
					}
				}
			}
			_ = os.WriteFile(filepath.Join(dir, ".pint.hcl"), []byte(hcl), 0o644)
			if c.Mode == "ci" {
				cmd := exec.Command("git", "-c", "user.name=verif", "-c", "user.email=verif@example.com", "-c", "commit.gpgsign=false", "add", "-A")
				cmd.Dir = dir
				_ = cmd.Run()
				cmd = exec.Command("git", "-c", "user.name=verif", "-c", "user.email=verif@example.com", "-c", "commit.gpgsign=false", "commit", "-q", "-m", "add rules")
				cmd.Dir = dir
				if out, err := cmd.CombinedOutput(); err != nil {
					fail(fmt.Errorf("git commit: %v: %s", err, out))
					return
				}
			}
			id := idx + 1
			rules := append([]string{}, c.Rules...)
			recs := []any{map[string]any{"ev": "BinFile", "id": id, "cfg": c.Cfg, "rules": rules, "two": c.Two, "grp": c.Grp, "sym": c.Sym, "mode": c.Mode}}
			combos := append([][3]int{{1, 1, 0}}, c.Combos...)
			for k, cb := range combos {
				seed := ""
				if cb[2] != 0 {
					seed = strconv.Itoa(cb[2])
				}
				se, js, code, race, err := c11RunBin(bin, dir, c.Mode, c.Cfg == "prom2", cb[0], cb[1], seed, order)
				if err != nil {
					fail(err)
					return
				}
				se = strings.ReplaceAll(se, fmt.Sprintf("workers=%d", cb[0]), "workers=N")
				rec := map[string]any{"ev": "Bin", "id": id, "base": k == 0, "workers": cb[0], "procs": cb[1], "seed": cb[2],
					"stderr": c11Hash(se), "json": c11Hash(js), "exit": code, "race": race, "text": ""}
				if k == 0 || race {
					rec["text"] = se
				}
				recs = append(recs, rec)
			}
			results[idx] = recs
		})
		if firstErr != nil {
			return firstErr
		}
		for _, rs := range results {
			for _, r := range rs {
				out.Write(r)
			}
		}
		return nil
	})
}
