package main

// exec-c17http: EXEC for the CommentSync family (C17), REST part.
// The same abstract cases as exec-c17, but the Commenter is the real GitLabReporter / GithubReporter
// talking HTTP to a fake GitLab / GitHub server that keeps the comment store (discussions with
// positions and authors, pull request review comments, reviews, general comments). Recorded are the
// REST calls that change the store and the store before/after each run.

import (
	"context"
	"encoding/json"
	"fmt"
	"io"
	"net/http"
	"net/http/httptest"
	"os"
	"path/filepath"
	"regexp"
	"runtime"
	"strconv"
	"strings"
	"sync"
	"time"

	"github.com/cloudflare/pint/internal/reporter"
)

const (
	c17User    = 123 // the account pint runs as
	c17Foreign = 321
)

type c17Srv struct {
	mu      sync.Mutex
	plat    string
	strip   bool
	padf    int          // other changed files, listed before the rule files
	pad     int          // old review comments of another user, created before everything in store
	store   []c17Comment // positioned review comments, creation order
	nextID  int
	general []string // comments without a position (GitLab notes / GitHub issue comments)
	reviews []string // GitHub review bodies
	files   map[string]string // abs path -> patch
	order   []string
	// per run
	before  []c17Comment
	creates []c17Comment
	calls   []c17Call
	deleted []int
	posts   []c17Comment // raw create requests, matched to pending comments afterwards
	bad     []string
	// failure injection: the k-th list / create / delete request of the run is answered with 403
	fault                   c17Fault
	nList, nCreate, nDelete int
	hit                     bool
	reqNo                   int
	// GitLab: a note carries the old and the new line number it was posted with (both for an unchanged line)
	glLines map[int][2]int // comment id -> {new_line, old_line}
	failedPost              map[int]bool // indexes of posts that were refused
}

var (
	c17GlDisc = regexp.MustCompile(`^/api/v4/projects/1/merge_requests/7/discussions$`)
	c17GlNote = regexp.MustCompile(`^/api/v4/projects/1/merge_requests/7/discussions/(\d+)/notes/(\d+)$`)
)

func (s *c17Srv) posBefore(id int) int {
	for k, c := range s.before {
		if c.ID == id {
			return k + 1
		}
	}
	return 0
}

func (s *c17Srv) add(path string, line int, body string, mine bool) c17Comment {
	if s.strip {
		body = strings.TrimRight(body, "\n")
	}
	s.nextID++
	c := c17Comment{ID: s.nextID, Path: path, Line: line, Text: body, Mine: mine}
	s.store = append(s.store, c)
	return c
}

func (s *c17Srv) ServeHTTP(w http.ResponseWriter, r *http.Request) {
	s.mu.Lock()
	defer s.mu.Unlock()
	body, _ := io.ReadAll(r.Body)
	w.Header().Set("Content-Type", "application/json")
	write := func(v any) {
		b, _ := json.Marshal(v)
		_, _ = w.Write(b)
	}
	p := r.URL.Path
	if s.plat == "gitlab" {
		s.gitlab(w, r, p, body, write)
	} else {
		s.github(w, r, p, body, write)
	}
}

// position of a stored note as GitLab returns it: what it was posted with; seeded notes sit on the new side
func (s *c17Srv) glPosition(c c17Comment) *c17GlPos {
	nl, ol := c.Line, 0
	if v, ok := s.glLines[c.ID]; ok {
		nl, ol = v[0], v[1]
	}
	return &c17GlPos{"base", "start", "head", c.Path, c.Path, "text", nl, ol}
}

type c17GlPos struct {
	BaseSHA  string `json:"base_sha"`
	StartSHA string `json:"start_sha"`
	HeadSHA  string `json:"head_sha"`
	OldPath  string `json:"old_path"`
	NewPath  string `json:"new_path"`
	Type     string `json:"position_type"`
	NewLine  int    `json:"new_line,omitempty"`
	OldLine  int    `json:"old_line,omitempty"`
}

func (s *c17Srv) gitlab(w http.ResponseWriter, r *http.Request, p string, body []byte, write func(any)) {
	type pos = c17GlPos
	type note struct {
		ID       int            `json:"id"`
		System   bool           `json:"system"`
		Author   map[string]int `json:"author"`
		Position *pos           `json:"position,omitempty"`
		Body     string         `json:"body"`
	}
	type disc struct {
		ID    string `json:"id"`
		Notes []note `json:"notes"`
	}
	switch {
	case p == "/api/v4/user":
		write(map[string]int{"id": c17User})
	case p == "/api/v4/projects/1/merge_requests" && r.Method == http.MethodGet:
		write([]map[string]int{{"iid": 7}})
	case p == "/api/v4/projects/1/merge_requests/7/diffs":
		out := []map[string]string{}
		for k := 0; k < s.padf; k++ {
			f := fmt.Sprintf("docs/page%02d.md", k)
			out = append(out, map[string]string{"diff": "@@ -1,1 +1,1 @@\n+text\n", "new_path": f, "old_path": f})
		}
		for _, f := range s.order {
			out = append(out, map[string]string{"diff": s.files[f], "new_path": f, "old_path": f})
		}
		lo, hi, next := c17Page(r, len(out), 20)
		if next > 0 {
			w.Header().Set("X-Next-Page", strconv.Itoa(next))
		}
		write(out[lo:hi])
	case p == "/api/v4/projects/1/merge_requests/7/versions":
		write([]map[string]any{{"id": 2, "head_commit_sha": "head", "base_commit_sha": "base", "start_commit_sha": "start"}})
	case c17GlDisc.MatchString(p) && r.Method == http.MethodGet && s.failNow("list", r):
		w.WriteHeader(http.StatusForbidden)
		write(map[string]string{"message": "403 Forbidden"})
	case c17GlDisc.MatchString(p) && r.Method == http.MethodGet:
		out := []disc{{ID: "1", Notes: []note{{ID: 1, System: true, Author: map[string]int{"id": c17User}, Body: "changed the description"}}}}
		for k := 0; k < s.pad; k++ {
			out = append(out, disc{ID: strconv.Itoa(100 + k), Notes: []note{{ID: 100 + k, Author: map[string]int{"id": c17Foreign},
				Position: &pos{"base", "start", "head", s.order[len(s.order)-1], s.order[len(s.order)-1], "text", 1, 0}, Body: "an old remark of a reviewer"}}})
		}
		for _, c := range s.store {
			a := c17User
			if !c.Mine {
				a = c17Foreign
			}
			out = append(out, disc{ID: strconv.Itoa(1000 + c.ID), Notes: []note{{ID: 1000 + c.ID, Author: map[string]int{"id": a},
				Position: s.glPosition(c), Body: c.Text}}})
		}
		for k, g := range s.general {
			out = append(out, disc{ID: strconv.Itoa(5000 + k), Notes: []note{{ID: 5000 + k, Author: map[string]int{"id": c17User}, Body: g}}})
		}
		// GitLab REST pagination: 20 items per page, X-Next-Page names the following page
		lo, hi, next := c17Page(r, len(out), 20)
		w.Header().Set("X-Page", strconv.Itoa(lo/20+1))
		w.Header().Set("X-Per-Page", "20")
		w.Header().Set("X-Total", strconv.Itoa(len(out)))
		if next > 0 {
			w.Header().Set("X-Next-Page", strconv.Itoa(next))
		}
		write(out[lo:hi])
	case c17GlDisc.MatchString(p) && r.Method == http.MethodPost:
		var req struct {
			Body     string `json:"body"`
			Position *pos   `json:"position"`
		}
		if err := json.Unmarshal(body, &req); err != nil {
			s.bad = append(s.bad, "bad discussion body: "+err.Error())
		}
		if req.Position == nil {
			s.general = append(s.general, req.Body)
		} else {
			line := req.Position.NewLine
			if line == 0 {
				line = req.Position.OldLine
			}
			s.posts = append(s.posts, c17Comment{Path: req.Position.NewPath, Line: line, Text: req.Body})
			if s.failNow("create", r) {
				s.failedPost[len(s.posts)-1] = true
				w.WriteHeader(http.StatusForbidden)
				write(map[string]string{"message": "403 Forbidden"})
				return
			}
			c := s.add(req.Position.NewPath, line, req.Body, true)
			if s.glLines == nil {
				s.glLines = map[int][2]int{}
			}
			s.glLines[c.ID] = [2]int{req.Position.NewLine, req.Position.OldLine}
			s.creates = append(s.creates, c)
		}
		w.WriteHeader(http.StatusCreated)
		write(map[string]any{"id": "new"})
	case c17GlNote.MatchString(p) && r.Method == http.MethodDelete:
		m := c17GlNote.FindStringSubmatch(p)
		id, _ := strconv.Atoi(m[2])
		id -= 1000
		pos := s.posBefore(id)
		if s.failNow("delete", r) {
			s.calls = append(s.calls, c17Call{"delete", pos, 2})
			s.reqNo++
			w.WriteHeader(http.StatusForbidden)
			write(map[string]string{"message": fmt.Sprintf("403 Forbidden (request %d)", s.reqNo)}) // unique: GitLab reporter does not repeat an identical error comment
			return
		}
		found := false
		for k, c := range s.store {
			if c.ID == id {
				s.store = append(s.store[:k:k], s.store[k+1:]...)
				found = true
				break
			}
		}
		if !found {
			s.bad = append(s.bad, "delete of unknown note "+m[2])
		}
		s.calls = append(s.calls, c17Call{"delete", pos, 0})
		s.deleted = append(s.deleted, pos)
		w.WriteHeader(http.StatusNoContent)
	case p == "/api/v4/" || p == "/api/v4":
		write(map[string]any{})
	default:
		s.bad = append(s.bad, r.Method+" "+p)
		w.WriteHeader(http.StatusNotFound)
		write(map[string]string{"message": "404"})
	}
}

func (s *c17Srv) github(w http.ResponseWriter, r *http.Request, p string, body []byte, write func(any)) {
	const pre = "/api/v3/repos/o/r/"
	switch {
	case p == pre+"pulls/7/files":
		out := []map[string]string{}
		for k := 0; k < s.padf; k++ {
			out = append(out, map[string]string{"filename": fmt.Sprintf("docs/page%02d.md", k), "patch": "@@ -1,1 +1,1 @@\n+text\n"})
		}
		for _, f := range s.order {
			out = append(out, map[string]string{"filename": f, "patch": s.files[f]})
		}
		lo, hi, next := c17Page(r, len(out), 30)
		if next > 0 {
			q := r.URL.Query()
			q.Set("page", strconv.Itoa(next))
			w.Header().Set("Link", fmt.Sprintf("<http://%s%s?%s>; rel=\"next\"", r.Host, r.URL.Path, q.Encode()))
		}
		write(out[lo:hi])
	case p == pre+"pulls/7/comments" && r.Method == http.MethodGet && s.failNow("list", r):
		w.WriteHeader(http.StatusForbidden)
		write(map[string]string{"message": "Forbidden"})
	case p == pre+"pulls/7/comments" && r.Method == http.MethodGet:
		out := []map[string]any{}
		for k := 0; k < s.pad; k++ {
			out = append(out, map[string]any{"id": 100000 + k, "path": s.order[len(s.order)-1], "line": 1, "body": "an old remark of a reviewer", "side": "RIGHT",
				"user": map[string]string{"login": "somebody"}})
		}
		for _, c := range s.store {
			login := "pint-bot"
			if !c.Mine {
				login = "somebody"
			}
			out = append(out, map[string]any{"id": c.ID, "path": c.Path, "line": c.Line, "body": c.Text, "side": "RIGHT", "user": map[string]string{"login": login}})
		}
		// GitHub REST pagination: 30 items per page by default, oldest first, Link header names the next page
		lo, hi, next := c17Page(r, len(out), 30)
		if next > 0 {
			q := r.URL.Query()
			q.Set("page", strconv.Itoa(next))
			w.Header().Set("Link", fmt.Sprintf("<http://%s%s?%s>; rel=\"next\"", r.Host, r.URL.Path, q.Encode()))
		}
		write(out[lo:hi])
	case p == pre+"pulls/7/comments" && r.Method == http.MethodPost:
		var req struct {
			Body string `json:"body"`
			Path string `json:"path"`
			Line int    `json:"line"`
			Side string `json:"side"`
		}
		if err := json.Unmarshal(body, &req); err != nil {
			s.bad = append(s.bad, "bad comment body: "+err.Error())
		}
		s.posts = append(s.posts, c17Comment{Path: req.Path, Line: req.Line, Text: req.Body})
		if s.failNow("create", r) {
			s.failedPost[len(s.posts)-1] = true
			w.WriteHeader(http.StatusForbidden)
			write(map[string]string{"message": "Forbidden"})
			return
		}
		c := s.add(req.Path, req.Line, req.Body, true)
		s.creates = append(s.creates, c)
		w.WriteHeader(http.StatusCreated)
		write(map[string]any{"id": c.ID})
	case p == pre+"pulls/7/reviews" && r.Method == http.MethodGet:
		out := []map[string]any{}
		for k, b := range s.reviews {
			out = append(out, map[string]any{"id": k + 1, "body": b})
		}
		write(out)
	case p == pre+"pulls/7/reviews" && r.Method == http.MethodPost:
		var req struct {
			Body string `json:"body"`
		}
		_ = json.Unmarshal(body, &req)
		s.reviews = append(s.reviews, req.Body)
		write(map[string]any{"id": len(s.reviews)})
	case strings.HasPrefix(p, pre+"pulls/7/reviews/") && r.Method == http.MethodPut:
		var req struct {
			Body string `json:"body"`
		}
		_ = json.Unmarshal(body, &req)
		k, _ := strconv.Atoi(strings.TrimPrefix(p, pre+"pulls/7/reviews/"))
		if k >= 1 && k <= len(s.reviews) {
			s.reviews[k-1] = req.Body
		}
		write(map[string]any{"id": k})
	case p == pre+"issues/7/comments" && r.Method == http.MethodPost:
		var req struct {
			Body string `json:"body"`
		}
		_ = json.Unmarshal(body, &req)
		s.general = append(s.general, req.Body)
		w.WriteHeader(http.StatusCreated)
		write(map[string]any{"id": len(s.general)})
	default:
		s.bad = append(s.bad, r.Method+" "+p)
		w.WriteHeader(http.StatusNotFound)
		write(map[string]string{"message": "404"})
	}
}

// failNow counts the request and tells whether it is the one to refuse (only the first page of a listing counts)
func (s *c17Srv) failNow(op string, r *http.Request) bool {
	if op == "list" && r.URL.Query().Get("page") != "" && r.URL.Query().Get("page") != "1" {
		return false
	}
	var n *int
	switch op {
	case "list":
		n = &s.nList
	case "create":
		n = &s.nCreate
	default:
		n = &s.nDelete
	}
	*n++
	if s.fault.Op == op && s.fault.K == *n {
		s.hit = true
		return true
	}
	return false
}

// page window [lo, hi) of n items for the request's page / per_page parameters; next = 0 when this is the last page
func c17Page(r *http.Request, n, defPer int) (lo, hi, next int) {
	per, _ := strconv.Atoi(r.URL.Query().Get("per_page"))
	if per <= 0 {
		per = defPer
	}
	page, _ := strconv.Atoi(r.URL.Query().Get("page"))
	if page <= 0 {
		page = 1
	}
	lo = (page - 1) * per
	if lo > n {
		lo = n
	}
	hi = lo + per
	if hi >= n {
		return lo, n, 0
	}
	return lo, hi, page + 1
}

func c17RunCaseHTTP(id int, cs c17Case, emit func(any)) error {
	dir, err := os.MkdirTemp(shmDir(), "c17h-")
	if err != nil {
		return err
	}
	defer os.RemoveAll(dir)
	srv := &c17Srv{plat: cs.Plat, strip: cs.Strip, pad: cs.Pad, padf: cs.Padf, files: map[string]string{}}
	ts := httptest.NewServer(srv)
	defer ts.Close()
	var commenter reporter.Commenter
	if cs.Plat == "gitlab" {
		gl, err := reporter.NewGitLabReporter("v0", "branch", ts.URL, 10*time.Second, "token", 1, cs.Max)
		if err != nil {
			return err
		}
		commenter = gl
	} else {
		gh, err := reporter.NewGithubReporter(context.Background(), "v0", ts.URL, ts.URL, 10*time.Second, "token", "o", "r", 7, cs.Max, "head", cs.Showdup)
		if err != nil {
			return err
		}
		commenter = gh
	}
	in := &c17Interner{ids: map[string]int{}}
	type seedRec struct {
		c17RecComment
		Atext c17Text `json:"atext"`
	}
	seeds := []seedRec{}
	for _, sd := range cs.Seeds {
		text, err := c17SeedText(dir, sd.Text)
		if err != nil {
			return err
		}
		text = strings.TrimRight(text, "\n") + strings.Repeat("\n", sd.Nl)
		srv.nextID++
		c := c17Comment{ID: srv.nextID, Path: filepath.Join(dir, c17FileName[sd.Path]), Line: sd.Line, Text: text, Mine: sd.Mine}
		srv.store = append(srv.store, c)
		at := sd.Text
		if at.M == nil {
			at.M = []string{}
		}
		seeds = append(seeds, seedRec{in.comment(c), at})
	}
	emit(map[string]any{"ev": "Case", "id": id, "plat": cs.Plat, "max": cs.Max, "strip": cs.Strip, "pad": cs.Pad, "padf": cs.Padf, "showdup": cs.Showdup, "store": seeds})
	for rn, run := range cs.Runs {
		on := map[string]bool{}
		for _, p := range run.Reports {
			on[p] = true
		}
		lr, err := c17DoLint(dir, on, run.Var)
		if err != nil {
			return err
		}
		if len(lr.extra) > 0 || len(lr.probs) != len(run.Reports) {
			return fmt.Errorf("case %d run %d: pipeline reported %v (+%v) for %v", id, rn+1, lr.probs, lr.extra, run.Reports)
		}
		srv.mu.Lock()
		srv.order = nil
		for _, f := range []string{"F1", "F2"} {
			abs := filepath.Join(dir, c17FileName[f])
			srv.order = append(srv.order, abs)
			srv.files[abs] = lr.patch(f)
		}
		srv.before = append([]c17Comment{}, srv.store...)
		srv.creates, srv.calls, srv.deleted, srv.posts = nil, []c17Call{}, []int{}, nil
		srv.fault, srv.nList, srv.nCreate, srv.nDelete, srv.hit, srv.failedPost = run.Fault, 0, 0, 0, false, map[int]bool{}
		if srv.fault.Op == "" || srv.fault.Op == "summary" || (srv.fault.Op == "list" && srv.fault.K > 1) {
			srv.fault.Op = "none" // the summary of the real reporters is several REST calls; not injected here
		}
		ngen := len(srv.general)
		srv.mu.Unlock()
		pending := reporter.VerifMakeComments(lr.summary, cs.Showdup)
		errStr := ""
		if err := reporter.Submit(context.Background(), lr.summary, commenter, cs.Showdup); err != nil {
			errStr = err.Error()
		}
		srv.mu.Lock()
		if len(srv.bad) > 0 {
			srv.mu.Unlock()
			return fmt.Errorf("case %d run %d: fake %s server got unexpected requests: %v", id, rn+1, cs.Plat, srv.bad)
		}
		used := map[int]bool{}
		// order the observed store-changing calls: creations (in request order) come before deletions in Submit
		calls := []c17Call{}
		for pi, post := range srv.posts {
			k := 0
			for idx, q := range pending {
				qp, qt, _, _ := reporter.VerifPendingFields(q)
				if !used[idx] && qp == post.Path && qt == post.Text {
					k = idx + 1
					used[idx] = true
					break
				}
			}
			b := 0
			if srv.failedPost[pi] {
				b = 2
			}
			calls = append(calls, c17Call{"create", k, b})
		}
		calls = append(calls, srv.calls...)
		// errors handed to the summary: GitLab posts them as a general comment, one "- `...`" line each
		nerrs := 0
		for _, g := range srv.general[ngen:] {
			if strings.HasPrefix(g, "There were some errors") {
				nerrs += strings.Count(g, "\n- `")
			}
		}
		pend := c17PendRecs(in, pending)
		reps := append([]string{}, run.Reports...)
		emit(map[string]any{"ev": "Run", "id": id, "run": rn + 1, "reports": reps, "shift": run.Var.Shift, "mod": run.Var.Mod,
			"pending": pend, "before": in.comments(srv.before), "listed": []int{}, "calls": calls, "callsobs": false,
			"creates": in.comments(srv.creates), "deleted": srv.deleted, "after": in.comments(srv.store),
			"general": len(srv.general) - ngen, "isequal": 0, "notice": 0, "err": errStr, "fault": srv.fault, "hit": srv.hit, "nerrs": nerrs})
		srv.mu.Unlock()
	}
	return nil
}

func init() {
	register("exec-c17http", func(in []json.RawMessage, out *Out, args []string) error {
		results := make([][]any, len(in))
		var mu sync.Mutex
		var firstErr error
		parallel(len(in), runtime.NumCPU(), func(idx int) {
			var cs c17Case
			if err := json.Unmarshal(in[idx], &cs); err != nil {
				mu.Lock()
				firstErr = err
				mu.Unlock()
				return
			}
			var recs []any
			if err := c17RunCaseHTTP(idx+1, cs, func(v any) { recs = append(recs, v) }); err != nil {
				mu.Lock()
				if firstErr == nil {
					firstErr = err
				}
				mu.Unlock()
				return
			}
			results[idx] = recs
		})
		if firstErr != nil {
			return firstErr
		}
		for _, rs := range results {
			for _, r := range rs {
				out.Write(r)
			}
		}
		return nil
	})
}
