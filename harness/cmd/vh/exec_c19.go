package main

// exec-c19: EXEC for C19 (Layout family, wrappers).
// Every case carries the unwrapped document (`base`: a strict rule file or a bare top-level rule
// list) and the same document inside a wrapper (`lines`: parent keys, sequence levels, sibling keys,
// extra documents, or embedded in a literal block scalar). The harness runs pint's real parser:
// strict and relaxed on the unwrapped document, relaxed on the wrapped one, and projects
// File.Groups[].Rules[] to (type, name, Lines, every YamlNode's value and positions).

import (
	"encoding/json"
	"runtime"

	"github.com/cloudflare/pint/verifharness/layout"
)

type c19Case struct {
	ID    int             `json:"id"`
	Lines []string        `json:"lines"`
	Base  []string        `json:"base"`
	Lay   json.RawMessage `json:"lay"`
}

type c19Rec struct {
	Ev      string          `json:"ev"`
	ID      int             `json:"id"`
	Lay     json.RawMessage `json:"lay"`
	Lines   []string        `json:"lines"`
	Base    []string        `json:"base"`
	Strict  layout.File     `json:"strict"`  // unwrapped, strict mode
	Relaxed layout.File     `json:"relaxed"` // unwrapped, relaxed mode
	Wrapped layout.File     `json:"wrapped"` // wrapped, relaxed mode
}

func init() {
	register("exec-c19", func(in []json.RawMessage, out *Out, args []string) error {
		layout.WithRaw = true
		recs := make([]c19Rec, len(in))
		parallel(len(in), runtime.NumCPU(), func(i int) {
			var cs c19Case
			if err := json.Unmarshal(in[i], &cs); err != nil {
				panic(err)
			}
			base, file := layout.Concrete(cs.Base), layout.Concrete(cs.Lines)
			crlf := layCRLF(cs.Lay)
			recs[i] = c19Rec{Ev: "Case", ID: cs.ID, Lay: cs.Lay, Lines: cs.Lines, Base: cs.Base,
				Strict: layout.ParseWith(base, true, crlf, layThanos(cs.Lay)), Relaxed: layout.ParseEOL(base, false, crlf), Wrapped: layout.ParseEOL(file, false, crlf)}
		})
		for _, r := range recs {
			out.Write(r)
		}
		return nil
	})
}
