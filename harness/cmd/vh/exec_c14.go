package main

// exec-c14: EXEC for the PromClient family (C14).
// Every case is a workload (K callers, C workers, a mix of questions, a fault and latency plan, a
// perturbation seed). The real promapi.FailoverGroup / Prometheus with started workers is run
// against a fake server (harness/promsrv). Recorded per case, ordered by one process-wide sequence:
//   H  events of hook H3 (lock/unlock under the locker's mutex, cache get/set under the cache mutex,
//      enq/deq/got, request start/end), actors normalised to caller / worker / slice indices
//   S  what the fake server saw: start and end of every request (end is taken before the response
//      leaves the server, so the logged interval lies inside the client's)
//   R  what every caller received (projection of the returned value, or the error)
// No judgement happens here.

import (
	"context"
	"crypto/sha256"
	"encoding/hex"
	"encoding/json"
	"errors"
	"fmt"
	"math"
	"net/url"
	"os"
	"runtime"
	"sort"
	"strconv"
	"strings"
	"sync"
	"sync/atomic"
	"time"

	"github.com/prometheus/client_golang/prometheus"

	"github.com/cloudflare/pint/internal/output"
	"github.com/cloudflare/pint/internal/promapi"
	"github.com/cloudflare/pint/verifharness/promhook"
	"github.com/cloudflare/pint/verifharness/promsrv"
)

type c14Q struct {
	Kind     string `json:"kind"` // query | config | flags | metadata | range
	Expr     string `json:"expr"`
	Lookback int    `json:"lookback"` // seconds (range only)
	Step     int    `json:"step"`     // seconds (range only)
}

type c14Case struct {
	Mix     string `json:"mix"`
	Fault   string `json:"fault"`
	Lat     string `json:"lat"`
	ID      int    `json:"id"`
	K       int    `json:"k"`
	C       int    `json:"c"`
	Perturb int    `json:"perturb"`
	RL      int    `json:"rl"`    // rateLimit of the server block (0 = practically unlimited)
	Clock   string `json:"clock"` // none | short | mid | long: second round of callers after the cache clock advanced (hook h3b)
	Tracer  bool   `json:"tracer"`
	Gc      bool   `json:"gc"`
	qcap    int
}

// how far the fake cache clock is advanced between the two rounds
var c14Advance = map[string]time.Duration{"short": 30 * time.Second, "mid": 400 * time.Second, "long": 2 * time.Hour}

// every range question of a case ends at the same fixed, unaligned instant
const c14T0 = int64(1_700_000_000 + 1234)

type c14Range struct {
	lookback, step time.Duration
}

func (r c14Range) Start() time.Time    { return time.Unix(c14T0, 0).Add(-r.lookback) }
func (r c14Range) End() time.Time      { return time.Unix(c14T0, 0) }
func (r c14Range) Dur() time.Duration  { return r.lookback }
func (r c14Range) Step() time.Duration { return r.step }
func (r c14Range) String() string {
	return fmt.Sprintf("%s/%s", output.HumanizeDuration(r.lookback), output.HumanizeDuration(r.step))
}

func c14Concretise(cs c14Case) (qs []c14Q, ask []int) {
	q := func(e string) c14Q { return c14Q{Kind: "query", Expr: e} }
	rg := func(e string, h int) c14Q { return c14Q{Kind: "range", Expr: e, Lookback: h * 3600, Step: 300} }
	switch cs.Mix {
	case "same":
		qs = []c14Q{q("count(up)")}
	case "two":
		qs = []c14Q{q("count(up)"), q("sum(foo)")}
	case "distinct":
		for i := 0; i < cs.K; i++ {
			qs = append(qs, q(fmt.Sprintf("metric_%d", i)))
		}
	case "endpoints":
		qs = []c14Q{{Kind: "config"}, {Kind: "flags"}, {Kind: "metadata", Expr: "foo"}, {Kind: "metadata", Expr: "bar"}, q("count(up)")}
	case "range1":
		qs = []c14Q{rg("count(up)", 8)}
	case "rangeShort": // single-slice range queries (look-back below the 2h slice size), one per caller
		for i := 0; i < cs.K; i++ {
			qs = append(qs, c14Q{Kind: "range", Expr: fmt.Sprintf("count(metric_%d)", i), Lookback: 3600, Step: 60})
		}
	case "rangeShortSame":
		qs = []c14Q{{Kind: "range", Expr: "count(up)", Lookback: 3600, Step: 60}}
	case "rangeMulti": // 2- and 3-slice range queries, each asked by several callers one after the other (the lock serialises them)
		nq := cs.K / 4
		if nq < 1 {
			nq = 1
		}
		if nq > 4 {
			nq = 4
		}
		for i := 0; i < nq; i++ {
			qs = append(qs, c14Q{Kind: "range", Expr: fmt.Sprintf("count(multi_%d)", i), Lookback: (2 + i%2) * 3600, Step: 300})
		}
	case "rangeTwin":
		qs = []c14Q{rg("count(up)", 8), rg("count(up)", 6)}
	case "rangeDisjoint":
		qs = []c14Q{rg("count(up)", 6), rg("count(foo)", 6)}
	default: // mixed
		qs = []c14Q{q("count(up)"), {Kind: "config"}, rg("count(foo)", 4), {Kind: "metadata", Expr: "foo"}, q("sum(foo)")}
	}
	for i := 0; i < cs.K; i++ {
		ask = append(ask, i%len(qs)+1)
	}
	return qs, ask
}

func c14Clocked(cs c14Case) bool { return c14Advance[cs.Clock] > 0 && promhook.HasState() }

func c14Mix64(x uint64) uint64 {
	x += 0x9E3779B97F4A7C15
	x = (x ^ (x >> 30)) * 0xBF58476D1CE4E5B9
	x = (x ^ (x >> 27)) * 0x94D049BB133111EB
	return x ^ (x >> 31)
}

func c14HashStr(s string) uint64 {
	h := sha256.Sum256([]byte(s))
	var x uint64
	for i := 0; i < 8; i++ {
		x = x<<8 | uint64(h[i])
	}
	return x
}

var c14Faults = []string{promsrv.Plain500, promsrv.JSON503, promsrv.Exec422, promsrv.BadData}

func c14Plan(cs c14Case) func(e promsrv.Entry, form url.Values) promsrv.Action {
	return func(e promsrv.Entry, _ url.Values) promsrv.Action {
		h := c14Mix64(c14HashStr(e.Key) ^ uint64(cs.Perturb)*31 ^ uint64(e.Serial)*1315423911)
		act := promsrv.Action{Fault: promsrv.Healthy}
		switch cs.Lat {
		case "short":
			act.Latency = time.Duration(h>>20%2000) * time.Microsecond
		case "long":
			act.Latency = 3*time.Millisecond + time.Duration(h>>20%7000)*time.Microsecond
		}
		if cs.Mix == "rangeMulti" && strings.HasSuffix(e.Path, "/query_range") && c14Secs(e.Form["start"])/7200%2 == 1 {
			// the small (single-series) slices answer a little later than the big ones
			act.Latency += 3 * time.Millisecond
		}
		switch cs.Fault {
		case "first":
			if e.Serial == 1 {
				act.Fault = c14Faults[h%4]
			}
		case "flaky":
			if e.Serial <= 3 && h%3 == 0 {
				act.Fault = c14Faults[(h>>8)%4]
			}
		}
		return act
	}
}

type c14Res struct {
	Ans  string
	Err  string
	Seq  uint64
	Done bool
	Ok   bool
}

func c14Short(s string) string {
	h := sha256.Sum256([]byte(s))
	if len(s) > 120 {
		s = s[:120] + "..."
	}
	return hex.EncodeToString(h[:6]) + " " + s
}

// c14Ask runs one question on the real client and projects what came back.
func c14Ask(fg *promapi.FailoverGroup, q c14Q) (r c14Res) {
	ctx := context.Background()
	var err error
	switch q.Kind {
	case "query":
		var qr *promapi.QueryResult
		qr, err = fg.Query(ctx, q.Expr)
		if err == nil {
			var sl []string
			for _, s := range qr.Series {
				sl = append(sl, fmt.Sprintf("%s=%g", s.Labels.String(), s.Value))
			}
			sort.Strings(sl)
			r.Ans = strings.Join(sl, ";")
		}
	case "config":
		var cr *promapi.ConfigResult
		cr, err = fg.Config(ctx, 0)
		if err == nil {
			r.Ans = fmt.Sprintf("req=%s scrape=%s", cr.Config.Global.ExternalLabels["req"], cr.Config.Global.ScrapeInterval)
		}
	case "flags":
		var fr *promapi.FlagsResult
		fr, err = fg.Flags(ctx)
		if err == nil {
			r.Ans = "req=" + fr.Flags["req"]
		}
	case "metadata":
		var mr *promapi.MetadataResult
		mr, err = fg.Metadata(ctx, q.Expr)
		if err == nil {
			var sl []string
			for _, m := range mr.Metadata {
				sl = append(sl, string(m.Type)+":"+m.Help)
			}
			r.Ans = strings.Join(sl, ";")
		}
	case "range":
		var rr *promapi.RangeQueryResult
		rr, err = fg.RangeQuery(ctx, q.Expr, c14Range{time.Duration(q.Lookback) * time.Second, time.Duration(q.Step) * time.Second})
		if err == nil {
			var sl []string
			for _, m := range rr.Series.Ranges {
				sl = append(sl, fmt.Sprintf("%s %d>%d", m.Labels.String(), m.Start.Unix(), m.End.Unix()))
			}
			sort.Strings(sl)
			r.Ans = strings.Join(sl, ";")
		}
	}
	if err != nil {
		var fe *promapi.FailoverGroupError
		if !errors.As(err, &fe) {
			r.Err = "unwrapped:" + err.Error()
		} else {
			r.Err = err.Error()
		}
	} else {
		r.Ok = true
		r.Ans = c14Short(r.Ans)
	}
	r.Done = true
	return r
}

type c14Rec = map[string]any

func c14Blank(ev string, id int) c14Rec {
	return c14Rec{"ev": ev, "id": id, "h": "", "a": 0, "kind": "", "key": "", "ckey": "", "job": 0, "ok": false, "ans": "",
		"rid": 0, "path": "", "query": "", "start": 0, "end": 0, "step": 0, "outcome": "", "seq": 0}
}

func c14Secs(s string) int {
	f, err := strconv.ParseFloat(s, 64)
	if err != nil {
		return 0
	}
	return int(math.Floor(f))
}

// c14Run executes one case once. hang = the callers did not all return within the deadline.
func c14Run(cs c14Case, deadline time.Duration, traced bool) (recs []c14Rec, hang bool, err error) {
	clocked := c14Clocked(cs)
	if clocked && cs.K > 32 {
		cs.K = 32
	}
	qs, ask := c14Concretise(cs)
	rounds := 1
	if clocked {
		rounds = 2
		ask = append(ask, ask...)
	}
	srv, err := promsrv.Start(true)
	if err != nil {
		return nil, false, err
	}
	defer srv.Close()
	srv.Seq = promhook.NextSeq
	srv.Plan = c14Plan(cs)

	var evMu sync.Mutex
	var evs []promhook.Event
	if traced {
		seed := uint64(cs.Perturb)
		promhook.SetTracer(func(e promhook.Event) {
			evMu.Lock()
			evs = append(evs, e)
			evMu.Unlock()
			x := c14Mix64(seed ^ e.Seq*0x9E3779B97F4A7C15)
			switch {
			case x%4 == 0:
				runtime.Gosched()
			case x%16 == 1:
				time.Sleep(time.Duration(x>>8%200) * time.Microsecond)
			}
		})
		defer promhook.SetTracer(nil)
	}

	rl := 1000000
	if cs.RL > 0 {
		rl = cs.RL
	}
	prom := promapi.NewPrometheus("prom", srv.URL(), "", nil, 20*time.Second, cs.C, rl, nil)
	reg := prometheus.NewRegistry()
	fg := promapi.NewFailoverGroup("prom", srv.URL(), []*promapi.Prometheus{prom}, false, "up", nil, nil, nil)
	fg.StartWorkers(reg)
	_, qcap := promhook.QueueState(fg)
	cs.qcap = qcap
	base := time.Now()
	var offset atomic.Int64
	if clocked {
		promhook.SetCacheClock(fg, func() time.Time { return base.Add(time.Duration(offset.Load())) })
	}
	type tick struct {
		seq  uint64
		secs int
	}
	var ticks []tick

	var mu sync.Mutex
	results := make([]c14Res, cs.K*rounds)
	gids := make([]uint64, cs.K*rounds)
	stopGc := make(chan struct{})
	var gcWg sync.WaitGroup
	for round := 0; round < rounds && !hang; round++ {
		if round > 0 {
			// time passes, then the cache cleaner runs (as the 2-minute ticker / watch loop would)
			d := c14Advance[cs.Clock]
			offset.Add(int64(d))
			ticks = append(ticks, tick{promhook.NextSeq(), int(d / time.Second)})
			fg.CleanCache()
		}
		var wg, ready sync.WaitGroup
		start := make(chan struct{})
		for i := round * cs.K; i < (round+1)*cs.K; i++ {
			wg.Add(1)
			ready.Add(1)
			go func(i int) {
				defer wg.Done()
				g := promhook.Goid()
				mu.Lock()
				gids[i] = g
				mu.Unlock()
				ready.Done()
				<-start
				if !traced {
					// without the tracer the schedule is diversified at the callers only
					x := c14Mix64(uint64(cs.Perturb)*1000003 + uint64(i))
					if x%3 == 0 {
						time.Sleep(time.Duration(x>>8%300) * time.Microsecond)
					}
				}
				r := c14Ask(fg, qs[ask[i]-1])
				r.Seq = promhook.NextSeq()
				mu.Lock()
				results[i] = r
				mu.Unlock()
			}(i)
		}
		ready.Wait()
		if cs.Gc && round == 0 {
			gcWg.Add(1)
			go func() {
				defer gcWg.Done()
				for {
					select {
					case <-stopGc:
						return
					default:
						fg.CleanCache()
						time.Sleep(200 * time.Microsecond)
					}
				}
			}()
		}
		close(start)
		done := make(chan struct{})
		go func() { wg.Wait(); close(done) }()
		select {
		case <-done:
		case <-time.After(deadline):
			hang = true
		}
	}
	close(stopGc)
	gcWg.Wait()
	if !hang {
		fg.Close(reg)
	}
	if traced {
		promhook.SetTracer(nil)
	}

	mu.Lock()
	gidCopy := append([]uint64{}, gids...)
	resCopy := append([]c14Res{}, results...)
	mu.Unlock()
	evMu.Lock()
	evCopy := append([]promhook.Event{}, evs...)
	evMu.Unlock()
	var tk [][2]uint64
	for _, t := range ticks {
		tk = append(tk, [2]uint64{t.seq, uint64(t.secs)})
	}
	return c14Project(cs, qs, ask, traced, gidCopy, resCopy, evCopy, srv.Log(), hang, "", tk...), hang, nil
}

// c14Project turns what was observed in one run into trace records (pure projection).
func c14Project(cs c14Case, qs []c14Q, ask []int, traced bool, gids []uint64, resCopy []c14Res, evCopy []promhook.Event,
	srvLog []promsrv.Entry, hang bool, replay string, ticks ...[2]uint64) (recs []c14Rec) {
	// ---- projection to records
	id := cs.ID
	c := c14Blank("Case", id)
	c["k"], c["c"], c["mix"], c["fault"], c["lat"], c["perturb"], c["traced"], c["gc"] = len(ask), cs.C, cs.Mix, cs.Fault, cs.Lat, cs.Perturb, traced, cs.Gc
	c["clock"], c["rl"], c["qcap"] = cs.Clock, cs.RL, cs.qcap
	c["questions"], c["asks"], c["t0"] = qs, ask, int(c14T0)
	recs = append(recs, c)

	type item struct {
		rec c14Rec
		seq uint64
	}
	var items []item
	gidCaller := map[uint64]int{}
	for i, g := range gids {
		gidCaller[g] = i + 1
	}
	sort.Slice(evCopy, func(i, j int) bool { return evCopy[i].Seq < evCopy[j].Seq })
	// job identity = the result channel; its address may be reused once a job is over, so a job
	// number is allotted at every enq event and later events of that address refer to the latest one
	workers := map[uint64]int{}
	cur := map[string]int{}
	jobNo := make([]int, len(evCopy))
	jobKey := map[int]string{}
	njobs := 0
	for i, e := range evCopy {
		if e.Ev == "deq" {
			if _, ok := workers[e.G]; !ok {
				workers[e.G] = len(workers) + 1
			}
		}
		if e.Job == "" {
			continue
		}
		if e.Ev == "enq" {
			njobs++
			cur[e.Job] = njobs
		}
		jobNo[i] = cur[e.Job]
		if e.Ev == "deq" {
			jobKey[jobNo[i]] = e.Key
		}
	}
	for i, e := range evCopy {
		r := c14Blank("H", id)
		r["h"], r["key"], r["seq"] = e.Ev, e.Key, e.Seq
		if i := strings.Index(e.Key, "#"); i >= 0 && e.Ev != "want" && e.Ev != "lock" && e.Ev != "unlock" && e.Ev != "enq" && e.Ev != "got" {
			// cache keys are compared as "#<hash>"; the endpoint goes to its own field
			r["key"], r["path"] = e.Key[i:], e.Key[:i]
		}
		switch {
		case gidCaller[e.G] > 0:
			r["kind"], r["a"] = "c", gidCaller[e.G]
		case workers[e.G] > 0:
			r["kind"], r["a"] = "w", workers[e.G]
		default:
			r["kind"] = "s"
		}
		if e.Job != "" {
			r["job"] = jobNo[i]
			r["ckey"] = fmt.Sprintf("?job%d", jobNo[i]) // never dequeued
			if k := jobKey[jobNo[i]]; k != "" {
				r["ckey"] = k[strings.Index(k, "#"):]
			}
		}
		items = append(items, item{r, e.Seq})
	}
	for _, e := range srvLog {
		mk := func(h string, seq uint64) {
			r := c14Blank("S", id)
			r["h"], r["rid"], r["key"], r["path"], r["seq"], r["outcome"] = h, e.ID, e.Key, e.Path, seq, e.Outcome
			r["query"] = e.Form["query"]
			if m := e.Form["metric"]; m != "" {
				r["query"] = m
			}
			r["start"], r["end"], r["step"] = c14Secs(e.Form["start"]), c14Secs(e.Form["end"]), c14Secs(e.Form["step"])
			items = append(items, item{r, seq})
		}
		mk("start", e.SeqStart)
		if e.SeqEnd > 0 {
			mk("end", e.SeqEnd)
		}
	}
	for _, t := range ticks {
		x := c14Blank("T", id)
		x["n"], x["seq"] = t[1], t[0]
		items = append(items, item{x, t[0]})
	}
	for i, r := range resCopy {
		if !r.Done {
			continue
		}
		x := c14Blank("R", id)
		x["a"], x["ok"], x["ans"], x["seq"] = i+1, r.Ok, r.Ans, r.Seq
		if !r.Ok {
			x["ans"] = r.Err
		}
		items = append(items, item{x, r.Seq})
	}
	sort.SliceStable(items, func(i, j int) bool { return items[i].seq < items[j].seq })
	for _, it := range items {
		recs = append(recs, it.rec)
	}
	e := c14Blank("End", id)
	e["ok"] = !hang
	e["n"] = len(items)
	returned := 0
	for _, r := range resCopy {
		if r.Done {
			returned++
		}
	}
	e["returned"] = returned
	// wall-clock span between the first and the last request arriving at the server (rate limiter binding)
	var first, last int64
	for _, x := range srvLog {
		if first == 0 || x.AtNs < first {
			first = x.AtNs
		}
		if x.AtNs > last {
			last = x.AtNs
		}
	}
	e["span_us"], e["nreq"] = int((last-first)/1000), len(srvLog)
	e["replay"] = replay
	recs = append(recs, e)
	return recs
}

func init() {
	register("exec-c14", func(in []json.RawMessage, out *Out, args []string) error {
		deadline := 60 * time.Second // generous: the machine may be heavily loaded; only a reproducible hang pays it twice
		if s := os.Getenv("C14_DEADLINE_MS"); s != "" {
			if n, err := strconv.Atoi(s); err == nil {
				deadline = time.Duration(n) * time.Millisecond
			}
		}
		hangs := 0
		for idx, raw := range in {
			var cs c14Case
			if err := json.Unmarshal(raw, &cs); err != nil {
				return err
			}
			if cs.ID == 0 {
				cs.ID = idx + 1
			}
			if hangs >= 1 {
				r := c14Blank("Skipped", cs.ID)
				out.Write(r)
				continue
			}
			traced := cs.Tracer && promhook.Available() && hangs == 0
			recs, hang, err := c14Run(cs, deadline, traced)
			if err != nil {
				return err
			}
			if hang {
				// a hang only counts when it reproduces
				recs2, hang2, err := c14Run(cs, deadline, false)
				if err != nil {
					return err
				}
				if !hang2 {
					return fmt.Errorf("case %d: hang did not reproduce", cs.ID)
				}
				hangs++
				_ = recs2
			}
			for _, r := range recs {
				out.Write(r)
			}
		}
		return nil
	})
}
