//go:build !layoutovl

package layout

import "github.com/cloudflare/pint/internal/diags"

// Fallback used only when the harness is built without the overlay (setup.sh, other engineers' builds):
// a re-enumeration of the cells First..Last. The C06 driver refuses to judge with it.
const ReadRangeImpl = "reimpl"

func readRange(first, last int, prs diags.PositionRanges) diags.PositionRanges {
	out := diags.PositionRanges{}
	idx := 0
	for _, pr := range prs {
		for c := pr.FirstColumn; c <= pr.LastColumn; c++ {
			idx++
			if idx >= first && idx <= last {
				out = append(out, diags.PositionRange{Line: pr.Line, FirstColumn: c, LastColumn: c})
			}
		}
	}
	return out
}
