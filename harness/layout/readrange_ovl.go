//go:build layoutovl

package layout

import "github.com/cloudflare/pint/internal/diags"

// Built with `-overlay` mapping <repo>/internal/diags/zz_verif_layout.go to harness/overlay/diags_export.go.txt,
// so the cells are selected by pint's real (unexported) diags.readRange.
const ReadRangeImpl = "real"

func readRange(first, last int, prs diags.PositionRanges) diags.PositionRanges {
	return diags.VerifLayoutReadRange(first, last, prs)
}
