// Package layout is the observation side of the Layout specification family (C06, C19):
// it runs pint's real parser on a rendered document and projects every YamlNode to
// (field path, value, positions, characters read back from the file at those positions).
// Projections only: whitespace collapsing and read-back; every judgement is made by TLC.
package layout

import (
	"fmt"
	"runtime/debug"
	"strings"
	"sync"
	"unicode/utf8"

	"github.com/prometheus/common/model"

	"github.com/cloudflare/pint/internal/diags"
	"github.com/cloudflare/pint/internal/output"
	"github.com/cloudflare/pint/internal/parser"
)

// Placeholder is the byte the TLA+ vocabulary uses for "one 2-byte rune"; Concrete() substitutes it.
const Placeholder = "@"
const TwoByteRune = "é"

// Concrete turns spec lines into file lines.
func Concrete(lines []string) []string {
	out := make([]string, len(lines))
	for i, l := range lines {
		out[i] = strings.ReplaceAll(strings.ReplaceAll(l, Placeholder, TwoByteRune), "%t", "\t")
	}
	return out
}

// Abstract maps reported text back to the spec alphabet (2-byte rune -> placeholder).
// Halves of a rune cut by a byte range and the "not in the file" marker become printable ASCII.
func Abstract(s string) string {
	s = strings.ReplaceAll(s, TwoByteRune, Placeholder)
	s = strings.ReplaceAll(s, TwoByteRune[:1], "%1")
	s = strings.ReplaceAll(s, TwoByteRune[1:], "%2")
	s = strings.ReplaceAll(s, "\t", "%t")
	return strings.ReplaceAll(s, "\x01", "%0")
}

func Content(lines []string) string { return ContentEOL(lines, false) }

// Phys returns the lines as pint sees them: with CR LF line endings every line keeps its CR.
func Phys(lines []string, crlf bool) []string {
	if !crlf {
		return lines
	}
	out := make([]string, len(lines))
	for i, l := range lines {
		out[i] = l + "\r"
	}
	return out
}

// ContentEOL: the file as written; crlf = CR LF line endings.
func ContentEOL(lines []string, crlf bool) string {
	if crlf {
		return strings.Join(lines, "\r\n") + "\r\n"
	}
	return strings.Join(lines, "\n") + "\n"
}

type PosR struct {
	Line  int `json:"l"`
	First int `json:"f"`
	Last  int `json:"t"`
}

type Node struct {
	Field string               `json:"field"` // alert | record | expr | for | keep_firing_for | labels | labels.k1 | labels.v1 | annotations...
	Val   string               `json:"val"`   // value, whitespace runs collapsed to one blank, trimmed
	Rb    string               `json:"rb"`    // characters at Pos read back from the file, collapsed the same way
	Pos   []PosR               `json:"pos"`
	Out   int                  `json:"out"`  // number of position cells that are not in the file
	VLen  int                  `json:"vlen"` // len(value) in bytes
	PLen  int                  `json:"plen"` // number of position cells
	Raw   string               `json:"-"`
	RawA  string               `json:"raw,omitempty"` // the value itself (2-byte rune -> placeholder); only with WithRaw
	P     diags.PositionRanges `json:"-"`
}

// WithRaw: include the raw value of every node in the projection (C19 compares values exactly).
var WithRaw bool

type Rule struct {
	Type    string `json:"type"` // alerting | recording | invalid
	Name    string `json:"name"`
	First   int    `json:"first"`
	Last    int    `json:"last"`
	Err     string `json:"err"`
	ErrLine int    `json:"errline"`
	Nodes   []Node `json:"nodes"`
	NG      bool   `json:"ng"` // first rule of its group
	GN      string `json:"gn"` // the group it belongs to: name|interval|query_offset
	GL      int    `json:"gl"` // ... and its limit
}

type Group struct {
	Name  string `json:"name"`
	Err   string `json:"err"`
	Nodes []Node `json:"nodes"` // group labels
	Rules []Rule `json:"rules"`
}

type File struct {
	Err     string  `json:"err"`
	ErrLine int     `json:"errline"`
	Total   int     `json:"total"`
	Panic   string  `json:"panic"`
	Groups  []Group `json:"groups"`
	Flat    []Rule  `json:"rules"` // File.Groups[].Rules[] flattened
}

// Collapse: every whitespace run (blank, newline position) becomes one blank; ends trimmed.
func Collapse(s string) string {
	return strings.Join(strings.FieldsFunc(s, func(r rune) bool { return r == ' ' || r == '\n' || r == '\r' }), " ")
}

// ReadBack returns the bytes of the file at the given cells; the cell len(line)+1 is the newline.
// Cells outside the file are counted and rendered as U+0001 so that they never compare equal.
func ReadBack(lines []string, prs diags.PositionRanges) (string, int) {
	return ReadBackIn(lines, prs, prs)
}

func unescape(c byte) (byte, bool) {
	switch c {
	case 'n':
		return '\n', true
	case 't':
		return '\t', true
	case 'r':
		return '\r', true
	case '"', '/', '\\', ' ':
		return c, true
	}
	return 0, false
}

// ReadBackIn reads `cells` (a selection of the cells `all` of one node). A cell that directly follows a
// backslash which is not itself a cell of the node completes an escape sequence of a double-quoted
// scalar (`\n`, `\t`, `\"`, `\\`): it is read as the character the escape spells.
func ReadBackIn(lines []string, cells, all diags.PositionRanges) (string, int) {
	has := func(line, col int) bool {
		for _, p := range all {
			if p.Line == line && p.FirstColumn <= col && col <= p.LastColumn {
				return true
			}
		}
		return false
	}
	var sb strings.Builder
	out := 0
	for _, pr := range cells {
		for c := pr.FirstColumn; c <= pr.LastColumn; c++ {
			switch {
			case pr.Line < 1 || pr.Line > len(lines) || c < 1 || c > len(lines[pr.Line-1])+1:
				out++
				sb.WriteByte(1)
			case c == len(lines[pr.Line-1])+1:
				sb.WriteByte('\n')
			default:
				line := lines[pr.Line-1]
				b := line[c-1]
				n := 0 // backslashes right in front of the cell that are not cells themselves
				for k := c - 1; k >= 1 && line[k-1] == '\\' && !has(pr.Line, k); k-- {
					n++
				}
				if n%2 == 1 {
					if u, ok := unescape(b); ok {
						b = u
					}
				}
				sb.WriteByte(b)
			}
		}
	}
	return sb.String(), out
}

func project(field string, yn *parser.YamlNode, lines []string) Node {
	n := Node{Field: field, Pos: []PosR{}, Raw: yn.Value, P: yn.Pos}
	for _, p := range yn.Pos {
		n.Pos = append(n.Pos, PosR{p.Line, p.FirstColumn, p.LastColumn})
	}
	rb, out := ReadBack(lines, yn.Pos)
	n.Val = Abstract(Collapse(yn.Value))
	n.Rb = Abstract(Collapse(rb))
	n.Out = out
	if WithRaw {
		n.RawA = Abstract(yn.Value)
	}
	n.VLen = len(yn.Value)
	n.PLen = yn.Pos.Len()
	return n
}

func projectMap(name string, ym *parser.YamlMap, lines []string) (out []Node) {
	if ym == nil {
		return nil
	}
	out = append(out, project(name, ym.Key, lines))
	for i, kv := range ym.Items {
		out = append(out, project(fmt.Sprintf("%s.k%d", name, i+1), kv.Key, lines))
		out = append(out, project(fmt.Sprintf("%s.v%d", name, i+1), kv.Value, lines))
	}
	return out
}

// RuleNodes lists every YamlNode of a parsed rule in a fixed order.
func RuleNodes(r parser.Rule, lines []string) []Node {
	nodes := []Node{}
	if r.RecordingRule != nil {
		nodes = append(nodes, project("record", &r.RecordingRule.Record, lines))
		nodes = append(nodes, project("expr", r.RecordingRule.Expr.Value, lines))
		nodes = append(nodes, projectMap("labels", r.RecordingRule.Labels, lines)...)
	}
	if r.AlertingRule != nil {
		a := r.AlertingRule
		nodes = append(nodes, project("alert", &a.Alert, lines))
		nodes = append(nodes, project("expr", a.Expr.Value, lines))
		if a.For != nil {
			nodes = append(nodes, project("for", a.For, lines))
		}
		if a.KeepFiringFor != nil {
			nodes = append(nodes, project("keep_firing_for", a.KeepFiringFor, lines))
		}
		nodes = append(nodes, projectMap("labels", a.Labels, lines)...)
		nodes = append(nodes, projectMap("annotations", a.Annotations, lines)...)
	}
	return nodes
}

func ProjectRule(r parser.Rule, lines []string) Rule {
	pr := Rule{Type: string(r.Type()), Name: Abstract(Collapse(r.Name())), First: r.Lines.First, Last: r.Lines.Last}
	if r.Error.Err != nil {
		pr.Err = r.Error.Err.Error()
		pr.ErrLine = r.Error.Line
	}
	pr.Nodes = RuleNodes(r, lines)
	return pr
}

var (
	once    sync.Once
	strictP parser.Parser
	thanosP parser.Parser
	relaxP  parser.Parser
)

func parsers() {
	once.Do(func() {
		strictP = parser.NewParser(true, parser.PrometheusSchema, model.UTF8Validation)
		thanosP = parser.NewParser(true, parser.ThanosSchema, model.UTF8Validation)
		relaxP = parser.NewParser(false, parser.PrometheusSchema, model.UTF8Validation)
	})
}

// Parse runs the real parser (strict or relaxed) on the lines and projects the result.
func Parse(lines []string, strict bool) (f File) { return ParseEOL(lines, strict, false) }

// ParseEOL: crlf = the file is written with CR LF line endings.
func ParseEOL(lines []string, strict, crlf bool) (f File) {
	return ParseWith(lines, strict, crlf, false)
}

// ParseWith: thanos = strict mode uses the Thanos rule schema (relaxed mode has no schema).
func ParseWith(lines []string, strict, crlf, thanos bool) (f File) {
	parsers()
	defer func() {
		if r := recover(); r != nil {
			f.Panic = fmt.Sprintf("%v\n%s", r, debug.Stack())
		}
	}()
	f.Groups = []Group{}
	f.Flat = []Rule{}
	p := relaxP
	if strict {
		p = strictP
		if thanos {
			p = thanosP
		}
	}
	pf := p.Parse(strings.NewReader(ContentEOL(lines, crlf)))
	lines = Phys(lines, crlf)
	f.Total = pf.TotalLines
	if pf.Error.Err != nil {
		f.Err = pf.Error.Err.Error()
		f.ErrLine = pf.Error.Line
	}
	for _, g := range pf.Groups {
		pg := Group{Name: g.Name, Rules: []Rule{}, Nodes: []Node{}}
		if g.Error.Err != nil {
			pg.Err = g.Error.Err.Error()
		}
		pg.Nodes = append(pg.Nodes, projectMap("labels", g.Labels, lines)...)
		for ri, r := range g.Rules {
			pr := ProjectRule(r, lines)
			pr.NG = ri == 0
			pr.GN = fmt.Sprintf("%s|%s|%s", g.Name, g.Interval, g.QueryOffset)
			pr.GL = g.Limit
			pg.Rules = append(pg.Rules, pr)
		}
		f.Groups = append(f.Groups, pg)
	}
	f.Flat = f.Rules()
	return f
}

// Rules flattens File.Groups[].Rules[].
func (f File) Rules() (out []Rule) {
	out = []Rule{}
	for _, g := range f.Groups {
		out = append(out, g.Rules...)
	}
	return out
}

// DiagRange applies readRange(min(First,len), min(Last,len), Pos) exactly the way diags.InjectDiagnostics does.
func DiagRange(first, last int, prs diags.PositionRanges) diags.PositionRanges {
	dl := prs.Len()
	return readRange(min(first, dl), min(last, dl), prs)
}

// Carets renders the diagnostic with the real diags.InjectDiagnostics and returns (a) the characters
// printed above the carets and (b) the characters of `cells` that lie on their last line, both collapsed.
func Carets(file []string, crlf bool, d diags.Diagnostic, cells diags.PositionRanges) (got, want string) {
	defer func() {
		if r := recover(); r != nil {
			got = fmt.Sprintf("%%0panic %v", r)
		}
	}()
	if len(cells) == 0 {
		return "", ""
	}
	phys := Phys(file, crlf)
	last := cells.Lines().Last
	var wb strings.Builder
	// InjectDiagnostics prints one caret per rune, when the first byte of the rune is selected.
	for _, c := range cells {
		if c.Line != last || c.Line < 1 || c.Line > len(phys) {
			continue
		}
		line := phys[c.Line-1]
		for col := c.FirstColumn; col <= c.LastColumn; col++ {
			switch {
			case col < 1 || col > len(line)+1:
				wb.WriteByte(1)
			case col == len(line)+1:
			case utf8.RuneStart(line[col-1]):
				r, _ := utf8.DecodeRuneInString(line[col-1:])
				wb.WriteRune(r)
			}
		}
	}
	want = Abstract(Collapse(wb.String()))
	text := diags.InjectDiagnostics(ContentEOL(file, crlf), []diags.Diagnostic{d}, output.None)
	rows := strings.Split(text, "\n")
	digits := len(fmt.Sprint(d.Pos.Lines().Last))
	prefix := fmt.Sprintf("%*d | ", digits, last)
	for i, row := range rows {
		if !strings.HasPrefix(row, prefix) || i+1 >= len(rows) {
			continue
		}
		src := []rune(strings.TrimPrefix(row, prefix))
		marks := strings.TrimSuffix(rows[i+1], " "+d.Message)
		if len(marks) < digits+3 {
			return "%0short", want
		}
		marks = marks[digits+3:]
		var gb strings.Builder
		for j, m := range []rune(marks) {
			if m == '^' {
				if j < len(src) {
					gb.WriteRune(src[j])
				} else {
					gb.WriteByte(1)
				}
			}
		}
		return Abstract(Collapse(gb.String())), want
	}
	return "%0norow", want
}
