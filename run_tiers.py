#!/usr/bin/env python3
"""./run_tiers.py <tier> [-j N] [--seed S] ID...  — run ./check for several properties, N at a time; log to stdout.
Development aid (acceptance sweeps); with VERIF_NO_EVIDENCE unset the evidence files are rewritten."""
import concurrent.futures, subprocess, sys, time, os
H = os.path.dirname(os.path.abspath(__file__))
args = sys.argv[1:]; tier = args.pop(0); j = 2; seed = None
while args and args[0].startswith("-"):
    o = args.pop(0)
    if o == "-j": j = int(args.pop(0))
    if o == "--seed": seed = args.pop(0)
def one(pid):
    t = time.time(); env = dict(os.environ)
    if seed: env["VERIF_SEED"] = seed
    r = subprocess.run([os.path.join(H, "check"), pid, "--tier", tier], capture_output=True, text=True, env=env)
    last = [l for l in r.stdout.splitlines() if l.startswith(("OK", "VIOLATION"))][-3:] or r.stderr.strip().splitlines()[-3:]
    return pid, r.returncode, round(time.time() - t), last
with concurrent.futures.ThreadPoolExecutor(j) as ex:
    for pid, rc, secs, last in ex.map(one, args):
        print(pid, "rc=%d" % rc, "%ds" % secs, " | ".join(x[:150] for x in last), flush=True)
