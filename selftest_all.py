#!/usr/bin/env python3
"""./selftest_all.py [-j N] [ID ...] — run ./selftest for each property (mutants/ + seeded/), N properties in parallel;
writes selftest_results.json (per patch: CAUGHT/MISSED/ERROR) and records detected_by in seeded/*/meta.json.
Development aid; not used by any registered command."""
import concurrent.futures, json, os, re, subprocess, sys, time
H = os.path.dirname(os.path.abspath(__file__))
args = sys.argv[1:]
j = 3
if args and args[0] == "-j":
    j = int(args[1]); args = args[2:]
ids = args or [json.loads(l)["id"] for l in open(os.path.join(H, "properties.jsonl"))]
def one(pid):
    t = time.time()
    r = subprocess.run([os.path.join(H, "selftest"), pid], capture_output=True, text=True)
    out = {}
    for line in r.stdout.splitlines():
        m = re.match(r"^(CAUGHT|MISSED|ERROR rc=\d+|SKIP)\s+(\S+)", line)
        if m:
            out[m.group(2).rstrip(":")] = m.group(1)
    return pid, out, round(time.time() - t)
res_path = os.path.join(H, "selftest_results.json")
results = json.load(open(res_path)) if os.path.exists(res_path) else {}
with concurrent.futures.ThreadPoolExecutor(j) as ex:
    for pid, out, secs in ex.map(one, ids):
        results[pid] = {"patches": out, "wall_s": secs, "repo_head": subprocess.run(["git", "-C", "/repo", "rev-parse", "--short", "HEAD"], capture_output=True, text=True).stdout.strip()}
        print(pid, secs, "s", {k: v for k, v in out.items() if v != "CAUGHT"} or "all %d caught" % len(out), flush=True)
        json.dump(results, open(res_path, "w"), indent=1, sort_keys=True)
        for p, st in out.items():
            if p.startswith("seeded/"):
                mp = os.path.join(H, os.path.dirname(p), "meta.json")
                m = json.load(open(mp))
                m.setdefault("detected_by", {})[pid] = {"check": "./check %s --tier quick" % pid, "result": st}
                json.dump(m, open(mp, "w"), indent=1)
