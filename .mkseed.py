#!/usr/bin/env python3
"""print the seeding prompt for property ID (worktree /tmp/seed-ID must be created by the caller)"""
import json, sys
pid = sys.argv[1]
p = [json.loads(l) for l in open('/verif/properties.jsonl') if json.loads(l)['id'] == pid][0]
t = open('/verif/.seed_preamble.txt').read()
print(t.replace('{WT}', '/tmp/seed-' + pid).replace('{TITLE}', '"' + p['title'] + '"').replace('{STATEMENT}', p['statement']).replace('{QUANT}', p['quantifier']['text']))
